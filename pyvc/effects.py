"""
pyvc.effects -- conservative static effect / frame checker for the pyxform package (C14, C20).

Reads every module under <repo>/pyxform/**/*.py (repo root from $VERIF_REPO, default /repo)
on every run, and generates *frame obligations* per function:

  E1   global frame          no function writes module-level / class-level / closure-cell /
                             default-argument state
  E1x  escaping module state functions that return a module-level mutable object directly
  E2   cache transparency    lru_cache/cache functions read only their arguments and immutable
                             module constants; callers do not mutate the cached result
  E3   order determinism     no set-typed value is consumed in an order-sensitive way
  E3x  (informational)       unsorted listdir/glob iteration, id()/hash() values
  E5   advisory warnings     a `warnings` list is only appended to / passed on / returned

The analysis is flow-insensitive inside a function (a may-analysis with joins), field-based for
object attributes (one abstract location per attribute name), and uses package-wide summaries
(returned aliases, mutated parameters, returned set types, parameter set types inferred from
call sites) computed to a fixpoint.  Pure stdlib; importing this module has no side effects.

Alias levels.  Every value carries, per source (module-level binding, cached function result,
mutable default, closure cell, class attribute, parameter), one of: SELF (is the object), SUB (a
sub-object of it: subscript / attribute / .get / .items() / loop variable), SHALLOW (a fresh
container whose elements are shared: X.copy(), dict(X), list(X), {**X}, sorted(X)...).  A write
through SELF or SUB is a write to the source; a write to the top level of a SHALLOW value is not,
a write one level below it is (`X.copy()[k][j] = v`).  copy.deepcopy breaks the alias.  Module
tables whose elements are all immutable literals (str/int/tuple...) do not taint their elements.

Known blind spots (documented assumptions of the C14 evidence):
  * A-REFL    reflective writes: setattr/getattr with computed names, `self[key] = v` routed to
              setattr by SurveyElement.__setitem__, **kwargs forwarding, exec/eval, __dict__.
  * A-HEAP    heap aliasing is field-based by attribute *name* only for module/cached/default
              sources; a parameter stored into an object field and mutated later through that
              field by another function is not connected back to the caller's argument.  A shallow
              copy stored as an element of another container (two levels from shared state) is
              not tracked.
  * A-CALL    calls are resolved by name (module functions, imports, constructors, self.m inside
              the class family, locals bound to a constructor call; otherwise every package method
              of that name).  Callables passed as values, functools.partial, getattr-dispatch and
              third-party callees are opaque: they are assumed neither to mutate their arguments
              nor (except the listed process-global setters) to write global state.
  * A-SETTYPE a value is known to be a set only through literals/constructors/set operators,
              annotations, attribute assignments seen in the package, return values of package
              functions and arguments at package call sites.  Sets arriving from third-party
              calls, from untyped containers built elsewhere, or via *args/**kwargs are unseen.
              dict views combined with - & | ^ are treated as sets; dict/list iteration is
              assumed insertion ordered.
  * A-FLOW    flow-insensitive: `x = S; x = sorted(x); for i in x` is flagged (annotate);
              conversely no path conditions are used, so nothing is missed for that reason.
  * A-LRU     E2 checks the body and callees resolved statically; reads through arguments
              (e.g. the survey object used as an lru_cache key) are by design not reads of
              module state.  Staleness of identity-keyed entries is argued separately.
  * A-ORDER   only set/frozenset and unsorted directory listings are treated as unordered;
              id()/hash() are reported (E3x) wherever their value is used, but ordering that
              depends on them indirectly (sorting objects without a key, dict keyed by objects
              with id-based hashes iterated after deletion) is not analysed.
  * A-E5      the warnings list is recognised by name (`warnings`, `_warnings`, `.warnings`,
              and direct local aliases); a list renamed on the way is not followed.
  * module top-level (import-time) code and code under `if __name__ == "__main__"` is listed as
    justified, not analysed; class bodies nested in functions are not analysed.
"""

from __future__ import annotations

import ast
import hashlib
import json
import os
import re
import sys

# --------------------------------------------------------------------------------------
# constants
# --------------------------------------------------------------------------------------

SELF, SUB, SHALLOW = 3, 2, 1  # alias levels: the object itself / a sub-object / fresh top, shared elements

MUTATORS = frozenset(
    """append extend add update pop popitem insert remove clear setdefault sort reverse discard
    __setitem__ __delitem__ __iadd__ __ior__ appendleft extendleft popleft write writelines
    intersection_update difference_update symmetric_difference_update move_to_end rotate
    setAttribute removeAttribute appendChild insertBefore removeChild replaceChild truncate
    __setattr__ __delattr__ cache_clear""".split()
)
# methods returning (a view of) elements of the receiver
ELEM_ACCESS = frozenset(
    "get setdefault pop popitem values items keys __getitem__ popleft most_common".split()
)
COPY_FUNCS = frozenset(
    "dict list set tuple sorted frozenset reversed OrderedDict defaultdict deque Counter chain "
    "filter iter enumerate zip map".split()
)
SET_OPS = frozenset("union intersection difference symmetric_difference".split())
MUTABLE_CTORS = frozenset("list dict set defaultdict OrderedDict deque Counter bytearray".split())
IMMUTABLE_CTORS = frozenset(
    "tuple frozenset str int float bool bytes compile namedtuple TypeVar getLogger object "
    "Path PurePath Enum".split()
)
# process-global setters of the standard library (module, attr) -> E1
GLOBAL_SETTERS = {
    ("ETree", "register_namespace"),
    ("ElementTree", "register_namespace"),
    ("ET", "register_namespace"),
    ("xml.etree.ElementTree", "register_namespace"),
    ("os", "chdir"),
    ("os", "putenv"),
    ("os", "unsetenv"),
    ("os", "umask"),
    ("sys", "setrecursionlimit"),
    ("sys", "setswitchinterval"),
    ("logging", "basicConfig"),
    ("logging", "disable"),
    ("random", "seed"),
    ("locale", "setlocale"),
    ("warnings", "simplefilter"),
    ("warnings", "filterwarnings"),
    ("socket", "setdefaulttimeout"),
    ("signal", "signal"),
    ("gc", "disable"),
    ("gc", "enable"),
    ("importlib", "reload"),
}
GLOBAL_SETTER_ATTRS = {a for _, a in GLOBAL_SETTERS}

# order-insensitive consumers (E3)
ORDER_SAFE_FUNCS = frozenset(
    "set frozenset sorted any all sum min max len bool isinstance Counter".split()
)
ORDER_SAFE_METHODS = frozenset(
    "update union intersection difference symmetric_difference issubset issuperset isdisjoint "
    "intersection_update difference_update symmetric_difference_update add append get "
    "setdefault discard remove __contains__ copy".split()
)
ORDER_SENSITIVE_FUNCS = frozenset(
    "list tuple enumerate zip iter next map filter reversed str repr print format chain "
    "OrderedDict deque dict fromkeys join writerow writerows extend extendleft dumps dump "
    "starmap islice accumulate".split()
)

# E2: impure reads
IMPURE_MODULES = frozenset(
    "time random secrets uuid tempfile glob socket getpass platform".split()
)
IMPURE_OS_ATTRS = frozenset(
    "environ getenv listdir scandir walk getcwd stat urandom getpid times".split()
)
IMPURE_OSPATH_ATTRS = frozenset(
    "exists isfile isdir getmtime getsize expanduser abspath realpath islink".split()
)
IMPURE_METHODS = frozenset(
    "read read_text read_bytes readlines readline open exists is_file is_dir iterdir stat "
    "now today utcnow".split()
)
LISTING_FUNCS = frozenset("listdir scandir walk glob iglob iterdir rglob".split())

# E5
WARNINGS_RE = re.compile(r"^_?warnings$")
INSPECTING_BUILTINS = frozenset(
    "len bool any all sorted list set tuple enumerate str repr print sum min max iter next "
    "reversed zip map filter frozenset dict format".split()
)
INSPECTING_METHODS = frozenset("join format write writelines writerow writerows".split())

STR_METHODS = frozenset(
    "split rsplit strip lstrip rstrip startswith endswith replace lower upper encode format "
    "partition rpartition find rfind index splitlines isdigit isalpha join casefold title".split()
)

FUNC_NODES = (ast.FunctionDef, ast.AsyncFunctionDef, ast.Lambda)


def _default_repo() -> str:
    return os.environ.get("VERIF_REPO", "/repo")


def _annotations_path() -> str:
    p = os.environ.get("VERIF_EFFECTS_ANNOTATIONS")
    if p:
        return p
    here = os.path.dirname(os.path.abspath(__file__))
    return os.path.normpath(os.path.join(here, "..", "contracts", "effects_annotations.json"))


# --------------------------------------------------------------------------------------
# taint helpers  (dict: source -> level)
# --------------------------------------------------------------------------------------


def t_join(a: dict, b: dict) -> dict:
    if not b:
        return a
    if not a:
        return b
    out = dict(a)
    for k, v in b.items():
        if out.get(k, 0) < v:
            out[k] = v
    return out


def t_elem(a: dict) -> dict:
    """Taint of an element / attribute of a value."""
    return {k: SUB for k in a} if a else a


def t_shallow(a: dict) -> dict:
    """Taint of a shallow copy / fresh container holding the value's elements."""
    return {k: SHALLOW for k in a} if a else a


def t_le(a: dict, b: dict) -> bool:
    return all(b.get(k, 0) >= v for k, v in a.items())


# --------------------------------------------------------------------------------------
# set-type helpers.  T = None | (is_set, elem, tup, is_map)
# --------------------------------------------------------------------------------------

SET_T = (True, None, None, False)


def ty_cont(t, is_map=False, depth=0):
    if t is None:
        return None
    if _ty_depth(t) >= 3:
        return t
    return (False, t, None, is_map)


def _ty_depth(t) -> int:
    if t is None:
        return 0
    d = _ty_depth(t[1])
    if t[2]:
        d = max([d] + [_ty_depth(x) for x in t[2]])
    return 1 + d


def ty_tup(ts):
    ts = tuple(ts)
    if not any(x is not None for x in ts):
        return None
    return (False, None, ts, False)


def ty_join(a, b):
    if a is None:
        return b
    if b is None:
        return a
    if a == b:
        return a
    tup = None
    if a[2] and b[2] and len(a[2]) == len(b[2]):
        tup = tuple(ty_join(x, y) for x, y in zip(a[2], b[2]))
        elem = ty_join(a[1], b[1])
    else:
        elem = ty_join(a[1], b[1])
        for side in (a, b):
            if side[2]:
                for x in side[2]:
                    elem = ty_join(elem, x)
    has_a = a[1] is not None or a[2]
    has_b = b[1] is not None or b[2]
    if has_a and has_b:
        is_map = a[3] and b[3]
    else:
        is_map = a[3] if has_a else b[3]
    return (a[0] or b[0], elem, tup, is_map)


def ty_is_set(t) -> bool:
    return bool(t and t[0])


def ty_access(t):
    """Type of t[k] / t.get(k) / t.pop()."""
    if t is None:
        return None
    out = t[1]
    if t[2]:
        for x in t[2]:
            out = ty_join(out, x)
    return out


def ty_iter(t):
    """Type of the loop variable of `for x in t`."""
    if t is None:
        return None
    if t[2]:
        out = t[1] if not t[3] else None
        for x in t[2]:
            out = ty_join(out, x)
        return out
    if t[3]:
        return None  # iterating a mapping yields keys
    return t[1]


def ty_index(t, i, n):
    """Type of position i of n when unpacking t."""
    if t is None:
        return None
    if t[2] and len(t[2]) == n:
        return t[2][i]
    return ty_iter(t)


# --------------------------------------------------------------------------------------
# package model
# --------------------------------------------------------------------------------------


class Binding:
    __slots__ = ("kind", "value", "module", "name", "lineno", "rebinds")

    def __init__(self, kind, value=None, module=None, name=None, lineno=0):
        self.kind = kind  # assign | import_module | import_name | def | class
        self.value = value  # ast expr for assign; FuncInfo / ClassInfo for def / class
        self.module = module  # target module for imports
        self.name = name  # target name for import_name
        self.lineno = lineno
        self.rebinds = 1


class ClassInfo:
    def __init__(self, module, qualname, node):
        self.module = module
        self.qualname = qualname
        self.node = node
        self.methods = {}
        self.class_attrs = {}  # name -> value expr (class-level assignments)
        self.self_assigned = set()

    @property
    def fq(self):
        return f"{self.module.name}.{self.qualname}"


class FuncInfo:
    def __init__(self, module, qualname, node, parent, cls):
        self.module = module
        self.qualname = qualname
        self.node = node
        self.parent = parent  # enclosing FuncInfo
        self.cls = cls  # ClassInfo when defined directly in a class body
        self.is_lambda = isinstance(node, ast.Lambda)
        self.params = []
        self.param_ann = {}
        self.param_default = {}
        self.locals = set()
        self.globals_decl = set()
        self.nonlocals_decl = set()
        self.owned = []  # all nodes owned by this function in source order
        self.children = {}  # nested def name -> FuncInfo
        self.nested = []  # all nested FuncInfos (defs and lambdas)
        self.decorators = []
        self.cached = False
        self.is_static = False
        self.is_classmethod = False
        self.vararg = None
        self.kwarg = None
        self.local_imports = {}  # name -> Binding for imports executed inside the body

    @property
    def fq(self):
        return f"{self.module.name}.{self.qualname}"

    @property
    def lineno(self):
        return self.node.lineno

    @property
    def is_method(self):
        return self.cls is not None and not self.is_static and not self.is_lambda


class ModuleInfo:
    def __init__(self, name, path, relpath, tree, is_pkg):
        self.name = name
        self.path = path
        self.relpath = relpath
        self.tree = tree
        self.is_pkg = is_pkg
        self.bindings = {}
        self.functions = []
        self.classes = {}
        self.toplevel_effects = []


def _decorator_name(d):
    if isinstance(d, ast.Call):
        d = d.func
    if isinstance(d, ast.Attribute):
        return d.attr
    if isinstance(d, ast.Name):
        return d.id
    return None


def _iter_store_names(target):
    for n in ast.walk(target):
        if isinstance(n, ast.Name) and isinstance(n.ctx, ast.Store | ast.Del):
            yield n.id


class Package:
    def __init__(self, repo_root):
        self.repo_root = repo_root
        self.pkg_dir = os.path.join(repo_root, "pyxform")
        self.modules = {}
        self.parent = {}  # ast node -> parent node
        self.all_functions = []
        self.classes_by_name = {}  # simple name -> [ClassInfo]
        self.methods_by_name = {}  # method name -> [FuncInfo]
        self.func_of_node = {}
        # summaries
        self.ret_taint = {}  # FuncInfo -> taint dict
        self.mut_params = {}  # FuncInfo -> {param: set(levels)}
        self.ret_type = {}  # FuncInfo -> T
        self.param_types = {}  # FuncInfo -> {param: T}
        self.attr_types = {}  # attr name -> T
        self.attr_taint = {}  # attr name -> taint (non-param sources)
        self.global_types = {}  # (module, name) -> T
        self.changed = False
        self._load()

    # ---- loading -------------------------------------------------------------------
    def _load(self):
        paths = []
        for dirpath, dirnames, filenames in os.walk(self.pkg_dir):
            dirnames.sort()
            for fn in sorted(filenames):
                if fn.endswith(".py"):
                    paths.append(os.path.join(dirpath, fn))
        for path in sorted(paths):
            rel = os.path.relpath(path, self.repo_root)
            parts = rel[:-3].split(os.sep)
            is_pkg = parts[-1] == "__init__"
            if is_pkg:
                parts = parts[:-1]
            name = ".".join(parts)
            with open(path, encoding="utf-8") as f:
                src = f.read()
            tree = ast.parse(src, filename=path)
            mod = ModuleInfo(name, path, rel, tree, is_pkg)
            self.modules[name] = mod
        for mod in self.modules.values():
            self._index_module(mod)
        for mod in self.modules.values():
            for fn in mod.functions:
                self.all_functions.append(fn)
        for fn in self.all_functions:
            self.ret_taint[fn] = {}
            self.mut_params[fn] = {}
            self.ret_type[fn] = None
            self.param_types[fn] = {}

    def _index_module(self, mod):
        for parent in ast.walk(mod.tree):
            for child in ast.iter_child_nodes(parent):
                self.parent[child] = parent
        self._collect_bindings(mod, mod.tree.body)
        used = {}

        def unique(q):
            n = used.get(q, 0) + 1
            used[q] = n
            return q if n == 1 else f"{q}.{n}"

        def visit_scope(body_nodes, prefix, parent_fn, cls):
            """Find function/class definitions reachable without crossing a function."""
            stack = list(body_nodes)
            found = []
            while stack:
                n = stack.pop(0)
                if isinstance(n, FUNC_NODES) or isinstance(n, ast.ClassDef):
                    found.append(n)
                    # decorators / defaults / bases belong to the enclosing scope
                    extra = []
                    if isinstance(n, ast.ClassDef):
                        extra = list(n.decorator_list) + list(n.bases) + [k.value for k in n.keywords]
                    else:
                        if not isinstance(n, ast.Lambda):
                            extra = list(n.decorator_list)
                        extra += list(n.args.defaults) + [d for d in n.args.kw_defaults if d]
                    stack = extra + stack
                    continue
                stack = list(ast.iter_child_nodes(n)) + stack
            found.sort(key=lambda x: (x.lineno, x.col_offset))
            for n in found:
                if isinstance(n, ast.ClassDef):
                    q = unique(prefix + n.name)
                    ci = ClassInfo(mod, q, n)
                    mod.classes[q] = ci
                    self.classes_by_name.setdefault(n.name, []).append(ci)
                    for st in n.body:
                        if isinstance(st, ast.Assign):
                            for t in st.targets:
                                if isinstance(t, ast.Name):
                                    ci.class_attrs[t.id] = st.value
                        elif isinstance(st, ast.AnnAssign) and isinstance(st.target, ast.Name):
                            ci.class_attrs[st.target.id] = st.value
                            t = self.ann_type(st.annotation)
                            if t is not None:
                                self.attr_types[st.target.id] = ty_join(
                                    self.attr_types.get(st.target.id), t
                                )
                    visit_scope(n.body, q + ".", parent_fn, ci)
                else:
                    nm = "<lambda>" if isinstance(n, ast.Lambda) else n.name
                    q = unique(prefix + nm)
                    fi = FuncInfo(mod, q, n, parent_fn, cls)
                    self._init_function(fi)
                    mod.functions.append(fi)
                    self.func_of_node[n] = fi
                    if parent_fn is not None:
                        parent_fn.nested.append(fi)
                        if not fi.is_lambda:
                            parent_fn.children[n.name] = fi
                    if cls is not None and not fi.is_lambda:
                        cls.methods[n.name] = fi
                        self.methods_by_name.setdefault(n.name, []).append(fi)
                    body = [n.body] if isinstance(n, ast.Lambda) else n.body
                    visit_scope(body, q + ".<locals>.", fi, None)

        visit_scope(mod.tree.body, "", None, None)
        for ci in mod.classes.values():
            for m in ci.methods.values():
                for n in m.owned:
                    if (
                        isinstance(n, ast.Attribute)
                        and isinstance(n.ctx, ast.Store)
                        and isinstance(n.value, ast.Name)
                        and m.params
                        and n.value.id == m.params[0]
                    ):
                        ci.self_assigned.add(n.attr)

    def _collect_bindings(self, mod, body):
        def bind(name, b):
            old = mod.bindings.get(name)
            if old is not None:
                b.rebinds = old.rebinds + 1
            mod.bindings[name] = b

        def visit(stmts, toplevel):
            for st in stmts:
                if isinstance(st, ast.Import):
                    for a in st.names:
                        if a.asname:
                            bind(a.asname, Binding("import_module", module=a.name, lineno=st.lineno))
                        else:
                            top = a.name.split(".")[0]
                            bind(top, Binding("import_module", module=top, lineno=st.lineno))
                elif isinstance(st, ast.ImportFrom):
                    base = st.module or ""
                    if st.level:
                        pkg_parts = mod.name.split(".")
                        if not mod.is_pkg:
                            pkg_parts = pkg_parts[:-1]
                        if st.level > 1:
                            pkg_parts = pkg_parts[: len(pkg_parts) - (st.level - 1)]
                        base = ".".join(pkg_parts + ([st.module] if st.module else []))
                    for a in st.names:
                        bind(
                            a.asname or a.name,
                            Binding("import_name", module=base, name=a.name, lineno=st.lineno),
                        )
                elif isinstance(st, ast.FunctionDef | ast.AsyncFunctionDef):
                    bind(st.name, Binding("def", value=st, lineno=st.lineno))
                elif isinstance(st, ast.ClassDef):
                    bind(st.name, Binding("class", value=st, lineno=st.lineno))
                elif isinstance(st, ast.Assign):
                    for t in st.targets:
                        if isinstance(t, ast.Name):
                            bind(t.id, Binding("assign", value=st.value, lineno=st.lineno))
                        else:
                            for nm in _iter_store_names(t):
                                bind(nm, Binding("assign", value=None, lineno=st.lineno))
                            if not isinstance(t, ast.Tuple | ast.List):
                                mod.toplevel_effects.append(st)
                elif isinstance(st, ast.AnnAssign):
                    if isinstance(st.target, ast.Name):
                        if st.value is not None:
                            bind(st.target.id, Binding("assign", value=st.value, lineno=st.lineno))
                    else:
                        mod.toplevel_effects.append(st)
                elif isinstance(st, ast.AugAssign):
                    for nm in _iter_store_names(st.target):
                        bind(nm, Binding("assign", value=None, lineno=st.lineno))
                    mod.toplevel_effects.append(st)
                elif isinstance(st, ast.Delete):
                    mod.toplevel_effects.append(st)
                elif isinstance(st, ast.Expr):
                    if not isinstance(st.value, ast.Constant):
                        mod.toplevel_effects.append(st)
                elif isinstance(st, ast.For | ast.AsyncFor | ast.While | ast.With | ast.AsyncWith):
                    mod.toplevel_effects.append(st)
                    if isinstance(st, ast.For | ast.AsyncFor):
                        for nm in _iter_store_names(st.target):
                            bind(nm, Binding("assign", value=None, lineno=st.lineno))
                    if isinstance(st, ast.With | ast.AsyncWith):
                        for it in st.items:
                            if it.optional_vars is not None:
                                for nm in _iter_store_names(it.optional_vars):
                                    bind(nm, Binding("assign", value=None, lineno=st.lineno))
                    visit_inner(st)
                elif isinstance(st, ast.If):
                    is_main = "__name__" in ast.unparse(st.test)
                    if is_main:
                        mod.toplevel_effects.append(st)
                    visit(st.body, toplevel)
                    visit(st.orelse, toplevel)
                elif isinstance(st, ast.Try) or st.__class__.__name__ == "TryStar":
                    visit(st.body, toplevel)
                    for h in st.handlers:
                        visit(h.body, toplevel)
                    visit(st.orelse, toplevel)
                    visit(st.finalbody, toplevel)
                elif isinstance(st, ast.Match):
                    mod.toplevel_effects.append(st)
                    for c in st.cases:
                        visit(c.body, toplevel)

        def visit_inner(st):
            visit(getattr(st, "body", []), False)
            visit(getattr(st, "orelse", []), False)

        visit(body, True)

    def _init_function(self, fi):
        n = fi.node
        a = n.args
        allargs = list(a.posonlyargs) + list(a.args)
        fi.params = [x.arg for x in allargs]
        defaults = [None] * (len(allargs) - len(a.defaults)) + list(a.defaults)
        for x, d in zip(allargs, defaults):
            if d is not None:
                fi.param_default[x.arg] = d
            if x.annotation is not None:
                fi.param_ann[x.arg] = x.annotation
        for x, d in zip(a.kwonlyargs, a.kw_defaults):
            fi.params.append(x.arg)
            if d is not None:
                fi.param_default[x.arg] = d
            if x.annotation is not None:
                fi.param_ann[x.arg] = x.annotation
        fi.n_positional = len(allargs)
        if a.vararg:
            fi.vararg = a.vararg.arg
        if a.kwarg:
            fi.kwarg = a.kwarg.arg
        fi.locals = set(fi.params)
        if fi.vararg:
            fi.locals.add(fi.vararg)
        if fi.kwarg:
            fi.locals.add(fi.kwarg)
        if not fi.is_lambda:
            fi.decorators = [_decorator_name(d) for d in n.decorator_list]
            fi.cached = any(d in ("lru_cache", "cache") for d in fi.decorators)
            fi.is_static = "staticmethod" in fi.decorators
            fi.is_classmethod = "classmethod" in fi.decorators
        # owned nodes
        owned = []

        def handle(child):
            owned.append(child)
            if isinstance(child, ast.FunctionDef | ast.AsyncFunctionDef):
                for d in child.decorator_list:
                    handle(d)
                for d in list(child.args.defaults) + [k for k in child.args.kw_defaults if k]:
                    handle(d)
            elif isinstance(child, ast.Lambda):
                for d in list(child.args.defaults) + [k for k in child.args.kw_defaults if k]:
                    handle(d)
            elif isinstance(child, ast.ClassDef):
                for d in list(child.decorator_list) + list(child.bases):
                    handle(d)
            else:
                for c in ast.iter_child_nodes(child):
                    handle(c)

        if fi.is_lambda:
            handle(n.body)
        else:
            for st in n.body:
                handle(st)
        fi.owned = owned
        stores = set()
        imports = {}
        for x in owned:
            if isinstance(x, ast.Name) and isinstance(x.ctx, ast.Store | ast.Del):
                stores.add(x.id)
            elif isinstance(x, ast.Global):
                fi.globals_decl.update(x.names)
            elif isinstance(x, ast.Nonlocal):
                fi.nonlocals_decl.update(x.names)
            elif isinstance(x, ast.Import):
                for al in x.names:
                    nm = al.asname or al.name.split(".")[0]
                    imports[nm] = Binding(
                        "import_module", module=al.name if al.asname else al.name.split(".")[0], lineno=x.lineno
                    )
            elif isinstance(x, ast.ImportFrom):
                base = x.module or ""
                if x.level:
                    pkg_parts = fi.module.name.split(".")
                    if not fi.module.is_pkg:
                        pkg_parts = pkg_parts[:-1]
                    if x.level > 1:
                        pkg_parts = pkg_parts[: len(pkg_parts) - (x.level - 1)]
                    base = ".".join(pkg_parts + ([x.module] if x.module else []))
                for al in x.names:
                    imports[al.asname or al.name] = Binding(
                        "import_name", module=base, name=al.name, lineno=x.lineno
                    )
            elif isinstance(x, ast.FunctionDef | ast.AsyncFunctionDef | ast.ClassDef):
                stores.add(x.name)
            elif isinstance(x, ast.ExceptHandler) and x.name:
                stores.add(x.name)
            elif isinstance(x, ast.MatchAs | ast.MatchStar) and x.name:
                stores.add(x.name)
            elif isinstance(x, ast.MatchMapping) and x.rest:
                stores.add(x.rest)
        fi.locals |= stores - fi.globals_decl - fi.nonlocals_decl
        for nm, b in imports.items():
            if nm in fi.locals or nm in fi.globals_decl:
                fi.locals.add(nm)  # also assigned otherwise: plain local
            else:
                fi.local_imports[nm] = b

    # ---- resolution ----------------------------------------------------------------
    def resolve_name(self, fn, name):
        """-> ('local', fn) | ('closure', outer_fn) | ('global', Binding) | ('builtin', None)"""
        if fn is not None:
            if name in fn.globals_decl:
                b = fn.module.bindings.get(name)
                return ("global", b if b is not None else Binding("assign"))
            if name in fn.locals:
                return ("local", fn)
            if name in fn.local_imports:
                return ("global", fn.local_imports[name])
            p = fn.parent
            while p is not None:
                if name in p.locals:
                    return ("closure", p)
                if name in p.local_imports:
                    return ("global", p.local_imports[name])
                if name in p.globals_decl:
                    break
                p = p.parent
            mod = fn.module
        else:
            mod = None
        b = mod.bindings.get(name) if mod else None
        if b is not None:
            return ("global", b)
        return ("builtin", None)

    def follow(self, module_name, name, depth=0):
        """Follow imports: -> ('state', modname, name, Binding) | ('module', modname) |
        ('ext', modname, name) | ('def', FuncInfo) | ('class', ClassInfo) | None"""
        if depth > 10:
            return None
        mod = self.modules.get(module_name)
        if mod is None:
            return ("ext", module_name, name)
        b = mod.bindings.get(name)
        if b is None:
            sub = f"{module_name}.{name}"
            if sub in self.modules:
                return ("module", sub)
            return None
        return self.follow_binding(module_name, name, b, depth)

    def follow_name(self, fn, mod, name):
        """Resolve a bare name used in function fn of module mod to a follow() result."""
        kind, b = self.resolve_name(fn, name) if fn is not None else ("global", mod.bindings.get(name))
        if kind != "global" or b is None:
            return None
        return self.follow_binding(mod.name, name, b)

    def follow_binding(self, module_name, name, b, depth=0):
        mod = self.modules.get(module_name)
        if b.kind == "assign":
            return ("state", module_name, name, b)
        if b.kind == "def":
            fi = self.func_of_node.get(b.value)
            return ("def", fi) if fi else None
        if b.kind == "class":
            for ci in mod.classes.values():
                if ci.node is b.value:
                    return ("class", ci)
            return None
        if b.kind == "import_module":
            return ("module", b.module)
        if b.kind == "import_name":
            sub = f"{b.module}.{b.name}"
            if b.module in self.modules:
                tgt = self.modules[b.module]
                if b.name in tgt.bindings:
                    return self.follow(b.module, b.name, depth + 1)
                if sub in self.modules:
                    return ("module", sub)
                return None
            if sub in self.modules:
                return ("module", sub)
            return ("ext", b.module, b.name)
        return None

    def resolve_global_expr(self, fn, mod, e):
        """Resolve a Name / dotted Attribute chain whose root is a module-level binding.
        -> (ref, extra_depth) where ref is a result of follow(), or None."""
        chain = []
        cur = e
        while isinstance(cur, ast.Attribute):
            chain.append(cur.attr)
            cur = cur.value
        if not isinstance(cur, ast.Name):
            return None
        kind, b = self.resolve_name(fn, cur.id) if fn is not None else ("global", mod.bindings.get(cur.id))
        if kind != "global" or b is None:
            return None
        if b.kind == "assign" and b.value is None and cur.id not in mod.bindings:
            return None
        ref = self.follow_binding(mod.name, cur.id, b)
        chain.reverse()
        i = 0
        while ref is not None and i < len(chain):
            if ref[0] == "module":
                if ref[1] in self.modules:
                    nxt = self.follow(ref[1], chain[i])
                    if nxt is None:
                        return None
                    ref = nxt
                else:
                    ref = ("ext", ref[1], chain[i])
                i += 1
            else:
                break
        if ref is None:
            return None
        return ref, len(chain) - i

    # ---- annotation -> set type -----------------------------------------------------
    def ann_type(self, ann):
        if ann is None:
            return None
        if isinstance(ann, ast.Constant) and isinstance(ann.value, str):
            try:
                ann = ast.parse(ann.value, mode="eval").body
            except SyntaxError:
                return None
        if isinstance(ann, ast.Name):
            if ann.id in ("set", "frozenset", "Set", "FrozenSet", "AbstractSet", "MutableSet"):
                return SET_T
            return None
        if isinstance(ann, ast.Attribute):
            if ann.attr in ("Set", "FrozenSet", "AbstractSet", "MutableSet"):
                return SET_T
            return None
        if isinstance(ann, ast.BinOp) and isinstance(ann.op, ast.BitOr):
            return ty_join(self.ann_type(ann.left), self.ann_type(ann.right))
        if isinstance(ann, ast.Subscript):
            base = ann.value
            bname = base.id if isinstance(base, ast.Name) else getattr(base, "attr", None)
            if bname in ("set", "frozenset", "Set", "FrozenSet", "AbstractSet", "MutableSet"):
                return SET_T
            sl = ann.slice
            elts = list(sl.elts) if isinstance(sl, ast.Tuple) else [sl]
            if bname in ("Optional", "Union", "Annotated", "Final", "ClassVar"):
                out = None
                for x in elts:
                    out = ty_join(out, self.ann_type(x))
                return out
            if bname in ("dict", "Dict", "Mapping", "MutableMapping", "defaultdict", "OrderedDict"):
                if len(elts) == 2:
                    return ty_cont(self.ann_type(elts[1]), is_map=True)
                return None
            if bname in ("list", "List", "Sequence", "Iterable", "Iterator", "Generator", "Collection"):
                return ty_cont(self.ann_type(elts[0]))
            if bname in ("tuple", "Tuple"):
                if len(elts) == 2 and isinstance(elts[1], ast.Constant) and elts[1].value is Ellipsis:
                    return ty_cont(self.ann_type(elts[0]))
                return ty_tup([self.ann_type(x) for x in elts])
        return None

    # ---- mutability of module-level bindings ---------------------------------------
    def mutability(self, mod, value, depth=0):
        """'mutable' | 'immutable' | 'unknown'"""
        if value is None or depth > 6:
            return "unknown"
        if isinstance(value, ast.List | ast.Dict | ast.Set | ast.ListComp | ast.DictComp | ast.SetComp):
            return "mutable"
        if isinstance(value, ast.Constant | ast.JoinedStr | ast.Lambda | ast.Compare):
            return "immutable"
        if isinstance(value, ast.Starred):
            # *X inside a tuple display: contributes X's elements
            v = value.value
            if isinstance(v, ast.Name | ast.Attribute):
                r = self.resolve_global_expr(None, mod, v)
                if r and r[1] == 0 and r[0][0] == "state" and self.elements_immutable(f"{r[0][1]}:{r[0][2]}"):
                    return "immutable"
            return "unknown"
        if isinstance(value, ast.Tuple):
            ms = [self.mutability(mod, x, depth + 1) for x in value.elts]
            if all(m == "immutable" for m in ms):
                return "immutable"
            return "mutable" if "mutable" in ms else "unknown"
        if isinstance(value, ast.BinOp):
            ms = [self.mutability(mod, value.left, depth + 1), self.mutability(mod, value.right, depth + 1)]
            if "mutable" in ms:
                return "mutable"
            return "immutable" if all(m == "immutable" for m in ms) else "unknown"
        if isinstance(value, ast.UnaryOp | ast.BoolOp):
            return "immutable"
        if isinstance(value, ast.IfExp):
            ms = {self.mutability(mod, value.body, depth + 1), self.mutability(mod, value.orelse, depth + 1)}
            return "mutable" if "mutable" in ms else ("immutable" if ms == {"immutable"} else "unknown")
        if isinstance(value, ast.Call):
            f = value.func
            nm = f.id if isinstance(f, ast.Name) else getattr(f, "attr", None)
            if nm in MUTABLE_CTORS:
                return "mutable"
            if nm in IMMUTABLE_CTORS:
                return "immutable"
            if isinstance(f, ast.Attribute) and nm in STR_METHODS | {"join", "format"}:
                return "immutable"
            r = self.resolve_global_expr(None, mod, f)
            if r and r[1] == 0 and r[0][0] == "class":
                ci = r[0][1]
                bases = [ast.unparse(b) for b in ci.node.bases]
                if any("Enum" in b or "NamedTuple" in b for b in bases):
                    return "immutable"
                return "mutable"
            return "unknown"
        if isinstance(value, ast.Subscript) and isinstance(value.value, ast.Name | ast.Attribute):
            r = self.resolve_global_expr(None, mod, value.value)
            if r and r[1] == 0 and r[0][0] == "state" and self.elements_immutable(f"{r[0][1]}:{r[0][2]}"):
                return "immutable"
            return "unknown"
        if isinstance(value, ast.Name | ast.Attribute):
            r = self.resolve_global_expr(None, mod, value)
            if r and r[1] == 0 and r[0][0] == "state":
                return self.mutability(self.modules[r[0][1]], r[0][3].value, depth + 1)
            if r and r[0][0] in ("def", "class", "module"):
                return "immutable"
            return "unknown"
        return "unknown"

    def state_mutability(self, sid):
        """sid = 'module:name' -> mutability"""
        modname, _, name = sid.partition(":")
        mod = self.modules.get(modname)
        if mod is None:
            return "unknown"
        b = mod.bindings.get(name)
        if b is None or b.kind != "assign":
            return "unknown"
        return self.mutability(mod, b.value)

    def elements_immutable(self, sid):
        """True when the module-level object `sid` is immutable or a container literal whose
        elements are all (deeply) immutable: nothing reachable *through* it can be mutated."""
        cache = self.__dict__.setdefault("_flat_cache", {})
        if sid in cache:
            return cache[sid]
        cache[sid] = False
        res = False
        modname, _, name = sid.partition(":")
        mod = self.modules.get(modname)
        if mod is not None:
            b = mod.bindings.get(name)
            if b is not None and b.kind == "assign" and b.value is not None and b.rebinds == 1:
                v = b.value
                seen = 0
                while isinstance(v, ast.Name | ast.Attribute) and seen < 5:
                    r = self.resolve_global_expr(None, mod, v)
                    if not (r and r[1] == 0 and r[0][0] == "state" and r[0][3].value is not None):
                        break
                    mod = self.modules[r[0][1]]
                    v = r[0][3].value
                    seen += 1
                if self.mutability(mod, v) == "immutable":
                    res = True
                elif isinstance(v, ast.Dict):
                    res = True
                    for k, x in zip(v.keys, v.values):
                        if k is None:
                            r = self.resolve_global_expr(None, mod, x) if isinstance(x, ast.Name | ast.Attribute) else None
                            if not (r and r[1] == 0 and r[0][0] == "state" and self.elements_immutable(f"{r[0][1]}:{r[0][2]}")):
                                res = False
                        elif self.mutability(mod, x) != "immutable":
                            res = False
                elif isinstance(v, ast.List | ast.Set | ast.Tuple):
                    res = all(self.mutability(mod, x) == "immutable" for x in v.elts)
                elif isinstance(v, ast.Call) and isinstance(v.func, ast.Name) and v.func.id in ("set", "frozenset"):
                    res = True  # elements of a set are hashable
        cache[sid] = res
        return res

    # ---- class helpers --------------------------------------------------------------
    def class_mro(self, ci, seen=None):
        seen = seen if seen is not None else []
        if ci in seen:
            return seen
        seen.append(ci)
        for b in ci.node.bases:
            r = self.resolve_global_expr(None, ci.module, b)
            if r and r[1] == 0 and r[0][0] == "class":
                self.class_mro(r[0][1], seen)
        return seen

    def class_family(self, ci):
        """Ancestors and descendants of ci (within the package)."""
        cache = self.__dict__.setdefault("_family", {})
        if ci not in cache:
            fam = set(self.class_mro(ci))
            allc = [c for m in self.modules.values() for c in m.classes.values()]
            for c in allc:
                if ci in self.class_mro(c):
                    fam.add(c)
            cache[ci] = fam
        return cache[ci]

    def enclosing_class(self, fn):
        f = fn
        while f is not None:
            if f.cls is not None:
                return f.cls
            f = f.parent
        return None

    # ---- statement text -------------------------------------------------------------
    def stmt_of(self, node):
        cur = node
        while cur is not None and not isinstance(cur, ast.stmt):
            cur = self.parent.get(cur)
        return cur


def stmt_text(st) -> str:
    """Normalised text of a statement; compound statements are reduced to their header."""
    if st is None:
        return "<module>"
    try:
        if isinstance(st, ast.For | ast.AsyncFor):
            pre = "async for" if isinstance(st, ast.AsyncFor) else "for"
            return f"{pre} {ast.unparse(st.target)} in {ast.unparse(st.iter)}:"
        if isinstance(st, ast.While):
            return f"while {ast.unparse(st.test)}:"
        if isinstance(st, ast.If):
            return f"if {ast.unparse(st.test)}:"
        if isinstance(st, ast.With | ast.AsyncWith):
            return "with " + ", ".join(ast.unparse(i) for i in st.items) + ":"
        if isinstance(st, ast.Match):
            return f"match {ast.unparse(st.subject)}:"
        if isinstance(st, ast.Try) or st.__class__.__name__ == "TryStar":
            return "try:"
        if isinstance(st, ast.FunctionDef | ast.AsyncFunctionDef):
            decs = "".join(f"@{ast.unparse(d)} " for d in st.decorator_list)
            return f"{decs}def {st.name}({ast.unparse(st.args)}):"
        if isinstance(st, ast.ClassDef):
            return f"class {st.name}:"
        return ast.unparse(st)
    except Exception:  # pragma: no cover - unparse should not fail
        return f"<{st.__class__.__name__}>"


def hash8(text: str) -> str:
    return hashlib.sha256(text.encode("utf-8")).hexdigest()[:8]


# --------------------------------------------------------------------------------------
# per-function analysis
# --------------------------------------------------------------------------------------


def _is_fresh_list(e) -> bool:
    if isinstance(e, ast.List) and not e.elts:
        return True
    return isinstance(e, ast.Call) and isinstance(e.func, ast.Name) and e.func.id == "list" and not e.args


def _is_mutable_literal(e) -> bool:
    if isinstance(e, ast.List | ast.Dict | ast.Set | ast.ListComp | ast.DictComp | ast.SetComp):
        return True
    return (
        isinstance(e, ast.Call)
        and isinstance(e.func, ast.Name)
        and e.func.id in MUTABLE_CTORS
    )


class FA:
    """Flow-insensitive abstract interpretation of one function body."""

    def __init__(self, pkg: Package, fn: FuncInfo):
        self.pkg = pkg
        self.fn = fn
        self.mod = fn.module
        self.env_t = {}  # key -> taint
        self.env_ty = {}  # key -> T
        self.changed = False
        self.events = []  # (source, level, node, why)
        self.collect = False
        self.self_name = fn.params[0] if (fn.is_method and fn.params) else None
        self.cls = pkg.enclosing_class(fn)
        self.mutable_defaults = {
            p for p, d in fn.param_default.items() if _is_mutable_literal(d)
        }
        for p, ann in fn.param_ann.items():
            t = pkg.ann_type(ann)
            if t is not None:
                self.env_ty[p] = t
        self._class_mut_attrs = None

    # ---- keys --------------------------------------------------------------------
    def key_of(self, e):
        if isinstance(e, ast.Name):
            k, _ = self.pkg.resolve_name(self.fn, e.id)
            return e.id if k == "local" else None
        if isinstance(e, ast.Attribute) and isinstance(e.value, ast.Name):
            k, _ = self.pkg.resolve_name(self.fn, e.value.id)
            if k == "local":
                return f"{e.value.id}.{e.attr}"
        return None

    def class_mutable_attrs(self):
        if self._class_mut_attrs is None:
            out = {}
            if self.cls is not None:
                mro = self.pkg.class_mro(self.cls)
                assigned = set()
                for ci in mro:
                    assigned |= ci.self_assigned
                for ci in mro:
                    for a, v in ci.class_attrs.items():
                        if a in assigned or a.startswith("__"):
                            continue
                        if v is not None and self.pkg.mutability(ci.module, v) == "mutable":
                            out.setdefault(a, ci.fq)
            self._class_mut_attrs = out
        return self._class_mut_attrs

    # ---- element / copy taint ------------------------------------------------------
    def elem(self, t, via_attr=False):
        if not t:
            return t
        out = {}
        for k in t:
            if k[0] in ("def", "class", "module") and not via_attr:
                continue
            if k[0] == "global" and self.pkg.elements_immutable(k[1]):
                continue
            out[k] = SUB
        return out

    def shallow(self, t):
        if not t:
            return t
        out = {}
        for k in t:
            if k[0] in ("def", "class", "module"):
                continue
            if k[0] == "global" and self.pkg.elements_immutable(k[1]):
                continue
            out[k] = SHALLOW
        return out

    def wrap(self, t):
        """Taint of a fresh container that holds a value with taint t as an element: only
        aliases (>= SUB) make the container's elements shared; a shallow copy stored as an
        element is two levels away from shared state and is not tracked (documented)."""
        if not t:
            return t
        return self.shallow({k: v for k, v in t.items() if v >= SUB})

    # ---- sources for global references --------------------------------------------
    def global_source(self, e):
        """Taint for a Name / Attribute chain rooted at a module-level binding, or None."""
        r = self.pkg.resolve_global_expr(self.fn, self.mod, e)
        if r is None:
            return None
        ref, extra = r
        if ref[0] == "state":
            sid = f"{ref[1]}:{ref[2]}"
            if ref[3].rebinds == 1 and self.pkg.state_mutability(sid) == "immutable":
                return {}
            src = ("global", sid)
        elif ref[0] == "ext":
            src = ("global", f"ext:{ref[1]}.{ref[2]}")
        elif ref[0] == "def":
            src = ("def", ref[1].fq)
        elif ref[0] == "class":
            src = ("class", ref[1].fq)
        elif ref[0] == "module":
            src = ("module", ref[1])
        else:
            return None
        if extra == 0:
            return {src: SELF}
        return self.elem({src: SELF}, via_attr=True)

    # ---- call resolution ----------------------------------------------------------
    def resolve_call(self, call):
        """-> list of (FuncInfo, receiver_expr_or_None, offset) candidates."""
        f = call.func
        pkg = self.pkg
        out = []
        if isinstance(f, ast.Name):
            kind, where = pkg.resolve_name(self.fn, f.id)
            if kind in ("local", "closure"):
                owner = where
                fi = owner.children.get(f.id)
                if fi is not None:
                    out.append((fi, None, 0))
                return out
            if kind == "global":
                ref = pkg.follow_name(self.fn, self.mod, f.id)
                return self._ref_callees(ref)
            return out
        if isinstance(f, ast.Attribute):
            r = pkg.resolve_global_expr(self.fn, self.mod, f)
            if r is not None and r[1] == 0 and r[0][0] in ("def", "class"):
                return self._ref_callees(r[0])
            if r is not None and r[0][0] in ("ext", "module") :
                return out
            if r is not None and r[1] == 1 and r[0][0] == "class":
                # Class.method(...)  (unbound / classmethod / staticmethod)
                for ci in pkg.class_mro(r[0][1]):
                    m = ci.methods.get(f.attr)
                    if m is not None:
                        off = 0
                        return [(m, None, 1 if m.is_classmethod else 0)]
                return out
            m = f.attr
            if m in MUTATORS or m in ELEM_ACCESS or m in SET_OPS or m in STR_METHODS or m == "copy":
                return out
            recv = f.value
            is_super = (
                isinstance(recv, ast.Call) and isinstance(recv.func, ast.Name) and recv.func.id == "super"
            )
            for fi in self.method_candidates(recv, m):
                if fi.is_static:
                    out.append((fi, None, 0))
                else:
                    out.append((fi, recv if not is_super else ast.Name(id=self.self_name or "self", ctx=ast.Load()), 1))
        return out

    def method_candidates(self, recv, m):
        """Candidate package methods for `recv.m(...)`: precise when the receiver's class is
        known (self / a local bound only to constructor calls), else every method named m."""
        pkg = self.pkg
        allm = pkg.methods_by_name.get(m, ())
        if not allm:
            return ()
        if isinstance(recv, ast.Name):
            if self.self_name and recv.id == self.self_name and self.cls is not None:
                fam = pkg.class_family(self.cls)
                return [fi for fi in allm if fi.cls in fam]
            ci = self.local_class(recv.id)
            if ci is not None:
                for c in pkg.class_mro(ci):
                    if m in c.methods:
                        return [c.methods[m]]
                return ()
        return allm

    def local_class(self, name):
        cache = self.__dict__.setdefault("_local_cls", None)
        if cache is None:
            cache = {}
            pkg = self.pkg
            if name in self.fn.params:
                pass
            bad = set(self.fn.params)
            for n in self.fn.owned:
                tgts = []
                val = None
                if isinstance(n, ast.Assign):
                    tgts, val = n.targets, n.value
                elif isinstance(n, ast.AnnAssign | ast.NamedExpr):
                    tgts, val = [n.target], n.value
                elif isinstance(n, ast.For | ast.AsyncFor | ast.comprehension):
                    bad.update(_iter_store_names(n.target))
                elif isinstance(n, ast.withitem) and n.optional_vars is not None:
                    bad.update(_iter_store_names(n.optional_vars))
                elif isinstance(n, ast.AugAssign):
                    bad.update(_iter_store_names(n.target))
                for tg in tgts:
                    if isinstance(tg, ast.Name):
                        ci = None
                        if isinstance(val, ast.Call):
                            r = pkg.resolve_global_expr(self.fn, self.mod, val.func)
                            if r is not None and r[1] == 0 and r[0][0] == "class":
                                ci = r[0][1]
                        if ci is None or (tg.id in cache and cache[tg.id] is not ci):
                            bad.add(tg.id)
                        else:
                            cache[tg.id] = ci
                    else:
                        bad.update(_iter_store_names(tg))
            for b in bad:
                cache.pop(b, None)
            self._local_cls = cache
        return cache.get(name)

    def _ref_callees(self, ref):
        if ref is None:
            return []
        if ref[0] == "def":
            return [(ref[1], None, 0)]
        if ref[0] == "class":
            for ci in self.pkg.class_mro(ref[1]):
                m = ci.methods.get("__init__")
                if m is not None:
                    return [(m, "fresh", 1)]
        return []

    def map_args(self, call, fi, offset):
        """-> {param name: arg expr}"""
        out = {}
        pos = fi.params[: fi.n_positional][offset:]
        i = 0
        for a in call.args:
            if isinstance(a, ast.Starred):
                break
            if i < len(pos):
                out[pos[i]] = a
            i += 1
        for kw in call.keywords:
            if kw.arg is not None and kw.arg in fi.params:
                out[kw.arg] = kw.value
        return out

    # ---- taint evaluation ---------------------------------------------------------
    def taint(self, e, _d=0):
        if e is None or _d > 40:
            return {}
        pkg = self.pkg
        if isinstance(e, ast.Name):
            kind, where = pkg.resolve_name(self.fn, e.id)
            if kind == "local":
                t = self.env_t.get(e.id, {})
                if e.id in self.fn.params:
                    t = t_join(t, {("param", e.id): SELF})
                    if e.id in self.mutable_defaults:
                        t = t_join(t, {("default", f"{self.fn.fq}:{e.id}"): SELF})
                    if self.fn.is_classmethod and self.fn.params and e.id == self.fn.params[0]:
                        t = t_join(t, {("class", self.cls.fq if self.cls else "?"): SELF})
                return t
            if kind == "closure":
                return {("closure", f"{where.fq}:{e.id}"): SELF}
            if kind == "global":
                return self.global_source(e) or {}
            return {}
        if isinstance(e, ast.Attribute):
            g = self.global_source(e)
            if g is not None:
                return g
            t = self.elem(self.taint(e.value, _d + 1), via_attr=True)
            key = self.key_of(e)
            if key is not None and key in self.env_t:
                t = t_join(t, self.env_t[key])
            at = pkg.attr_taint.get(e.attr)
            if at:
                t = t_join(t, at)
            if e.attr == "__class__":
                t = t_join(t, {("class", self.cls.fq if self.cls else "?"): SELF})
            if (
                self.self_name
                and isinstance(e.value, ast.Name)
                and e.value.id == self.self_name
                and e.attr in self.class_mutable_attrs()
            ):
                t = t_join(t, {("classattr", f"{self.class_mutable_attrs()[e.attr]}.{e.attr}"): SELF})
            return t
        if isinstance(e, ast.Subscript):
            return self.elem(self.taint(e.value, _d + 1))
        if isinstance(e, ast.Call):
            return self.taint_call(e, _d)
        if isinstance(e, ast.IfExp):
            return t_join(self.taint(e.body, _d + 1), self.taint(e.orelse, _d + 1))
        if isinstance(e, ast.BoolOp):
            t = {}
            for v in e.values:
                t = t_join(t, self.taint(v, _d + 1))
            return t
        if isinstance(e, ast.NamedExpr):
            return self.taint(e.value, _d + 1)
        if isinstance(e, ast.Starred | ast.Await):
            return self.taint(e.value, _d + 1)
        if isinstance(e, ast.Tuple | ast.List | ast.Set):
            t = {}
            for x in e.elts:
                t = t_join(t, self.taint(x, _d + 1))
            return self.wrap(t)
        if isinstance(e, ast.Dict):
            t = {}
            for k, v in zip(e.keys, e.values):
                vt = self.taint(v, _d + 1)
                t = t_join(t, self.shallow(vt) if k is None else self.wrap(vt))
            return t
        if isinstance(e, ast.ListComp | ast.SetComp | ast.GeneratorExp):
            return self.wrap(self.taint(e.elt, _d + 1))
        if isinstance(e, ast.DictComp):
            return self.wrap(self.taint(e.value, _d + 1))
        if isinstance(e, ast.BinOp) and isinstance(e.op, ast.BitOr | ast.Add):
            return self.shallow(t_join(self.taint(e.left, _d + 1), self.taint(e.right, _d + 1)))
        if isinstance(e, ast.Yield):
            return {}
        return {}

    def taint_call(self, e, _d):
        f = e.func
        pkg = self.pkg
        args = e.args
        if isinstance(f, ast.Name):
            kind, _ = pkg.resolve_name(self.fn, f.id)
            nm = f.id
            if kind == "builtin" or (kind == "global" and self._is_ext(f)):
                if nm == "deepcopy":
                    return {}
                if nm == "copy" and args:
                    return self.shallow(self.taint(args[0], _d + 1))
                if nm in COPY_FUNCS:
                    t = {}
                    for a in args:
                        t = t_join(t, self.taint(a, _d + 1))
                    return self.shallow(t)
                if nm == "type":
                    return {("class", self.cls.fq if self.cls else "?"): SELF}
                if nm == "getattr" and args:
                    t = self.elem(self.taint(args[0], _d + 1))
                    if len(args) > 1 and isinstance(args[1], ast.Constant) and isinstance(args[1].value, str):
                        t = t_join(t, pkg.attr_taint.get(args[1].value, {}))
                    if len(args) > 2:
                        t = t_join(t, self.taint(args[2], _d + 1))
                    return t
                if nm in ("next", "min", "max") and args:
                    return self.elem(self.taint(args[0], _d + 1))
                if nm in ("globals", "locals", "vars"):
                    if nm == "vars" and args:
                        return self.taint(args[0], _d + 1)
                    return {("global", f"{self.mod.name}:<{nm}()>"): SELF}
                if nm == "super" and self.self_name:
                    return {("param", self.self_name): SELF}
                return {}
        elif isinstance(f, ast.Attribute):
            m = f.attr
            r = pkg.resolve_global_expr(self.fn, self.mod, f)
            if r is not None and r[0][0] in ("ext", "module") and r[0][0] != "state":
                # library function
                modname = r[0][1]
                if m == "deepcopy":
                    return {}
                if m == "copy" and modname == "copy" and args:
                    return self.shallow(self.taint(args[0], _d + 1))
                if m in COPY_FUNCS:
                    t = {}
                    for a in args:
                        t = t_join(t, self.taint(a, _d + 1))
                    return self.shallow(t)
                if r[0][0] == "ext" and r[1] == 0 and len(r[0]) == 3:
                    # call of an attribute of an external module: opaque, fresh
                    return {}
            if r is None or r[0][0] == "state" or r[1] > 0:
                rt = self.taint(f.value, _d + 1)
                if m == "copy":
                    return self.shallow(rt)
                if m in ELEM_ACCESS:
                    t = self.elem(rt)
                    if m in ("get", "pop", "setdefault"):
                        if len(args) > 1:
                            t = t_join(t, self.taint(args[1], _d + 1))
                        for kw in e.keywords:
                            if kw.arg == "default":
                                t = t_join(t, self.taint(kw.value, _d + 1))
                    return t
                if m in SET_OPS:
                    t = rt
                    for a in args:
                        t = t_join(t, self.taint(a, _d + 1))
                    return self.shallow(t)
        # package callees
        t = {}
        for fi, recv, off in self.resolve_call(e):
            if fi.cached:
                t = t_join(t, {("cache", fi.fq): SELF})
                continue
            if recv == "fresh":
                continue
            rt = pkg.ret_taint.get(fi)
            if not rt:
                continue
            amap = None
            for src, lvl in rt.items():
                if src[0] == "param":
                    if amap is None:
                        amap = self.map_args(e, fi, off)
                        if recv is not None and off == 1 and fi.params:
                            amap[fi.params[0]] = recv
                    a = amap.get(src[1])
                    if a is None:
                        continue
                    at = self.taint(a, _d + 1)
                    if lvl == SELF:
                        t = t_join(t, at)
                    elif lvl == SUB:
                        t = t_join(t, self.elem(at))
                    else:
                        t = t_join(t, self.shallow(at))
                else:
                    t = t_join(t, {src: lvl})
        return t

    def _is_ext(self, name_node):
        ref = self.pkg.follow_name(self.fn, self.mod, name_node.id)
        return ref is not None and ref[0] == "ext"

    # ---- set-type evaluation ------------------------------------------------------
    def ty(self, e, _d=0):
        if e is None or _d > 40:
            return None
        pkg = self.pkg
        if isinstance(e, ast.Set | ast.SetComp):
            return SET_T
        if isinstance(e, ast.Name):
            kind, where = pkg.resolve_name(self.fn, e.id)
            if kind == "local":
                t = self.env_ty.get(e.id)
                if e.id in self.fn.params:
                    t = ty_join(t, pkg.param_types[self.fn].get(e.id))
                return t
            if kind == "closure":
                fa = pkg.fa.get(where) if hasattr(pkg, "fa") else None
                return fa.env_ty.get(e.id) if fa else None
            if kind == "global":
                return self.global_type(e)
            return None
        if isinstance(e, ast.Attribute):
            g = self.global_type(e)
            if g is not None:
                return g
            t = pkg.attr_types.get(e.attr)
            key = self.key_of(e)
            if key is not None:
                t = ty_join(t, self.env_ty.get(key))
            return t
        if isinstance(e, ast.Subscript):
            if isinstance(e.slice, ast.Slice):
                return self.ty(e.value, _d + 1)
            vt = self.ty(e.value, _d + 1)
            if vt and vt[2] and isinstance(e.slice, ast.Constant) and isinstance(e.slice.value, int):
                i = e.slice.value
                if 0 <= i < len(vt[2]):
                    return vt[2][i]
            return ty_access(vt)
        if isinstance(e, ast.BinOp):
            if isinstance(e.op, ast.BitOr | ast.BitAnd | ast.Sub | ast.BitXor):
                lt, rt = self.ty(e.left, _d + 1), self.ty(e.right, _d + 1)
                if ty_is_set(lt) or ty_is_set(rt):
                    return SET_T
                for side in (e.left, e.right):
                    if (
                        isinstance(side, ast.Call)
                        and isinstance(side.func, ast.Attribute)
                        and side.func.attr in ("keys", "items")
                    ):
                        return SET_T
                if isinstance(e.op, ast.BitOr):
                    return ty_join(lt, rt)
            if isinstance(e.op, ast.Add):
                return ty_join(self.ty(e.left, _d + 1), self.ty(e.right, _d + 1))
            return None
        if isinstance(e, ast.IfExp):
            return ty_join(self.ty(e.body, _d + 1), self.ty(e.orelse, _d + 1))
        if isinstance(e, ast.BoolOp):
            t = None
            for v in e.values:
                t = ty_join(t, self.ty(v, _d + 1))
            return t
        if isinstance(e, ast.NamedExpr | ast.Await | ast.Starred):
            return self.ty(e.value, _d + 1)
        if isinstance(e, ast.Tuple):
            return ty_tup([self.ty(x, _d + 1) for x in e.elts])
        if isinstance(e, ast.List):
            t = None
            for x in e.elts:
                t = ty_join(t, self.ty(x, _d + 1))
            return ty_cont(t)
        if isinstance(e, ast.Dict):
            t = None
            for k, v in zip(e.keys, e.values):
                if k is None:
                    t = ty_join(t, ty_access(self.ty(v, _d + 1)))
                else:
                    t = ty_join(t, self.ty(v, _d + 1))
            return ty_cont(t, is_map=True)
        if isinstance(e, ast.ListComp | ast.GeneratorExp):
            return ty_cont(self.ty(e.elt, _d + 1))
        if isinstance(e, ast.DictComp):
            return ty_cont(self.ty(e.value, _d + 1), is_map=True)
        if isinstance(e, ast.Call):
            return self.ty_call(e, _d)
        return None

    def global_type(self, e):
        r = self.pkg.resolve_global_expr(self.fn, self.mod, e)
        if r is None or r[1] != 0 or r[0][0] != "state":
            return None
        return self.pkg.global_type_of(r[0][1], r[0][2])

    def ty_call(self, e, _d):
        f = e.func
        pkg = self.pkg
        args = e.args
        a0 = args[0] if args else None
        if isinstance(f, ast.Name):
            kind, _ = pkg.resolve_name(self.fn, f.id)
            nm = f.id
            if kind == "builtin" or (kind == "global" and self._is_ext(f)):
                if nm in ("set", "frozenset"):
                    return SET_T
                if nm in ("list", "tuple", "sorted", "reversed", "iter", "deque"):
                    return ty_cont(ty_iter(self.ty(a0, _d + 1)))
                if nm in ("dict", "OrderedDict", "copy", "deepcopy"):
                    return self.ty(a0, _d + 1)
                if nm == "defaultdict" and a0 is not None:
                    if isinstance(a0, ast.Name) and a0.id in ("set", "frozenset"):
                        return ty_cont(SET_T, is_map=True)
                    if isinstance(a0, ast.Lambda):
                        return ty_cont(self.ty(a0.body, _d + 1), is_map=True)
                    return None
                if nm in ("next", "min", "max"):
                    t = ty_iter(self.ty(a0, _d + 1))
                    if nm == "next" and len(args) > 1:
                        t = ty_join(t, self.ty(args[1], _d + 1))
                    return t
                if nm == "getattr" and len(args) > 1:
                    t = None
                    if isinstance(args[1], ast.Constant) and isinstance(args[1].value, str):
                        t = pkg.attr_types.get(args[1].value)
                    if len(args) > 2:
                        t = ty_join(t, self.ty(args[2], _d + 1))
                    return t
                if nm == "zip":
                    return ty_cont(ty_tup([ty_iter(self.ty(a, _d + 1)) for a in args]))
                if nm == "enumerate":
                    return ty_cont(ty_tup([None, ty_iter(self.ty(a0, _d + 1))]))
                return None
        elif isinstance(f, ast.Attribute):
            m = f.attr
            r = pkg.resolve_global_expr(self.fn, self.mod, f)
            lib = r is not None and r[0][0] in ("ext", "module")
            if lib:
                if m in ("copy", "deepcopy"):
                    return self.ty(a0, _d + 1)
                if r[0][0] == "ext":
                    return None
            else:
                if m in SET_OPS:
                    return SET_T
                rt = self.ty(f.value, _d + 1)
                if m == "copy":
                    return rt
                if m in ("get", "pop", "setdefault"):
                    t = ty_access(rt)
                    if m == "pop" and ty_is_set(rt):
                        t = None
                    if len(args) > 1:
                        t = ty_join(t, self.ty(args[1], _d + 1))
                    for kw in e.keywords:
                        if kw.arg == "default":
                            t = ty_join(t, self.ty(kw.value, _d + 1))
                    return t
                if m == "values":
                    return ty_cont(ty_access(rt))
                if m == "items":
                    return ty_cont(ty_tup([None, ty_access(rt)]))
                if m == "keys":
                    return None
                if m == "popitem":
                    return ty_tup([None, ty_access(rt)])
        t = None
        for fi, recv, off in self.resolve_call(e):
            if recv == "fresh":
                continue
            t = ty_join(t, pkg.ret_type.get(fi))
        return t

    # ---- binding ------------------------------------------------------------------
    def _set_t(self, key, t):
        if not t:
            return
        old = self.env_t.get(key, {})
        if not t_le(t, old):
            self.env_t[key] = t_join(old, t)
            self.changed = True

    def _set_ty(self, key, t):
        if t is None:
            return
        old = self.env_ty.get(key)
        new = ty_join(old, t)
        if new != old:
            self.env_ty[key] = new
            self.changed = True

    def bind(self, target, t, ty):
        pkg = self.pkg
        if isinstance(target, ast.Name):
            kind, _ = pkg.resolve_name(self.fn, target.id)
            if kind == "local":
                self._set_t(target.id, t)
                self._set_ty(target.id, ty)
            return
        if isinstance(target, ast.Starred):
            self.bind(target.value, self.shallow(t), ty_cont(ty_iter(ty)))
            return
        if isinstance(target, ast.Tuple | ast.List):
            n = len(target.elts)
            for i, x in enumerate(target.elts):
                self.bind(x, self.elem(t), ty_index(ty, i, n))
            return
        if isinstance(target, ast.Attribute):
            key = self.key_of(target)
            if key is not None:
                self._set_t(key, t)
                self._set_ty(key, ty)
            glob = {k: v for k, v in t.items() if k[0] not in ("param",)}
            if glob:
                old = pkg.attr_taint.get(target.attr, {})
                if not t_le(glob, old):
                    pkg.attr_taint[target.attr] = t_join(old, glob)
                    pkg.changed = True
            if ty is not None:
                old = pkg.attr_types.get(target.attr)
                new = ty_join(old, ty)
                if new != old:
                    pkg.attr_types[target.attr] = new
                    pkg.changed = True
            return
        if isinstance(target, ast.Subscript):
            self.store_into(target.value, t, ty, is_map=True)
            return

    def store_into(self, container, t, ty, is_map):
        """Value (t, ty) is stored as an element of `container`."""
        depth = 0
        cur = container
        while isinstance(cur, ast.Subscript):
            cur = cur.value
            depth += 1
            is_map = True
        wrapped = ty_cont(ty, is_map=is_map)
        for _ in range(depth):
            wrapped = ty_cont(wrapped, is_map=True)
        key = self.key_of(cur)
        if key is not None:
            self._set_t(key, self.wrap(t))
            self._set_ty(key, wrapped)
        if isinstance(cur, ast.Attribute):
            glob = self.wrap({k: v for k, v in t.items() if k[0] != "param"})
            if glob:
                old = self.pkg.attr_taint.get(cur.attr, {})
                if not t_le(glob, old):
                    self.pkg.attr_taint[cur.attr] = t_join(old, glob)
                    self.pkg.changed = True
            if wrapped is not None:
                old = self.pkg.attr_types.get(cur.attr)
                new = ty_join(old, wrapped)
                if new != old:
                    self.pkg.attr_types[cur.attr] = new
                    self.pkg.changed = True

    # ---- one pass over the owned nodes --------------------------------------------
    def step(self):
        self.changed = False
        pkg = self.pkg
        fn = self.fn
        ret_t = pkg.ret_taint[fn]
        ret_ty = pkg.ret_type[fn]
        for n in fn.owned:
            if isinstance(n, ast.Assign):
                t, ty = self.taint(n.value), self.ty(n.value)
                if (
                    len(n.targets) == 1
                    and isinstance(n.targets[0], ast.Tuple | ast.List)
                    and isinstance(n.value, ast.Tuple | ast.List)
                    and len(n.targets[0].elts) == len(n.value.elts)
                    and not any(isinstance(x, ast.Starred) for x in n.targets[0].elts + n.value.elts)
                ):
                    for tg, v in zip(n.targets[0].elts, n.value.elts):
                        self.bind(tg, self.taint(v), self.ty(v))
                else:
                    for tg in n.targets:
                        self.bind(tg, t, ty)
            elif isinstance(n, ast.AnnAssign):
                ty = ty_join(pkg.ann_type(n.annotation), self.ty(n.value) if n.value else None)
                self.bind(n.target, self.taint(n.value) if n.value else {}, ty)
            elif isinstance(n, ast.AugAssign):
                self.bind(n.target, self.shallow(self.taint(n.value)), self.ty(n.value) if isinstance(n.op, ast.BitOr | ast.BitAnd | ast.Sub | ast.BitXor) else None)
            elif isinstance(n, ast.NamedExpr):
                self.bind(n.target, self.taint(n.value), self.ty(n.value))
            elif isinstance(n, ast.For | ast.AsyncFor):
                self.bind(n.target, self.elem(self.taint(n.iter)), ty_iter(self.ty(n.iter)))
            elif isinstance(n, ast.comprehension):
                self.bind(n.target, self.elem(self.taint(n.iter)), ty_iter(self.ty(n.iter)))
            elif isinstance(n, ast.withitem):
                if n.optional_vars is not None:
                    self.bind(n.optional_vars, self.taint(n.context_expr), self.ty(n.context_expr))
            elif isinstance(n, ast.Return):
                if n.value is not None:
                    t = self.taint(n.value)
                    if not t_le(t, ret_t):
                        ret_t = t_join(ret_t, t)
                        pkg.changed = True
                    ty = ty_join(ret_ty, self.ty(n.value))
                    if ty != ret_ty:
                        ret_ty = ty
                        pkg.changed = True
            elif isinstance(n, ast.Yield):
                if n.value is not None:
                    t = self.wrap(self.taint(n.value))
                    if not t_le(t, ret_t):
                        ret_t = t_join(ret_t, t)
                        pkg.changed = True
                    ty = ty_join(ret_ty, ty_cont(self.ty(n.value)))
                    if ty != ret_ty:
                        ret_ty = ty
                        pkg.changed = True
            elif isinstance(n, ast.YieldFrom):
                t = self.taint(n.value)
                if not t_le(t, ret_t):
                    ret_t = t_join(ret_t, t)
                    pkg.changed = True
            elif isinstance(n, ast.Call):
                self.step_call(n)
        if fn.is_lambda:
            t = self.taint(fn.node.body)
            if not t_le(t, ret_t):
                ret_t = t_join(ret_t, t)
                pkg.changed = True
            ty = ty_join(ret_ty, self.ty(fn.node.body))
            if ty != ret_ty:
                ret_ty = ty
                pkg.changed = True
        elif fn.node.returns is not None:
            ty = ty_join(ret_ty, pkg.ann_type(fn.node.returns))
            if ty != ret_ty:
                ret_ty = ty
                pkg.changed = True
        pkg.ret_taint[fn] = ret_t
        pkg.ret_type[fn] = ret_ty
        if self.changed:
            pkg.changed = True

    def step_call(self, n):
        pkg = self.pkg
        f = n.func
        # container effects of builtin mutators
        if isinstance(f, ast.Attribute):
            m = f.attr
            if m in ("append", "add", "appendleft") and n.args:
                self.store_into(f.value, self.taint(n.args[0]), self.ty(n.args[0]), is_map=False)
            elif m == "insert" and len(n.args) > 1:
                self.store_into(f.value, self.taint(n.args[1]), self.ty(n.args[1]), is_map=False)
            elif m == "setdefault" and len(n.args) > 1:
                self.store_into(f.value, self.taint(n.args[1]), self.ty(n.args[1]), is_map=True)
            elif m in ("extend", "update", "extendleft") and n.args:
                t = self.taint(n.args[0])
                ty = self.ty(n.args[0])
                key_root = f.value
                while isinstance(key_root, ast.Subscript):
                    key_root = key_root.value
                key = self.key_of(key_root)
                if key is not None and key_root is f.value:
                    self._set_t(key, self.shallow(t))
                    if ty is not None and not ty_is_set(ty):
                        self._set_ty(key, (False, ty[1], None, ty[3]) if ty[1] is not None else None)
                elif key is not None:
                    self._set_t(key, self.shallow(t))
        # parameter types / mutation summaries from call sites
        for fi, recv, off in self.resolve_call(n):
            amap = self.map_args(n, fi, off)
            ptypes = pkg.param_types[fi]
            for p, a in amap.items():
                ty = self.ty(a)
                if ty is not None:
                    new = ty_join(ptypes.get(p), ty)
                    if new != ptypes.get(p):
                        ptypes[p] = new
                        pkg.changed = True
            mp = pkg.mut_params.get(fi)
            if mp:
                if recv is not None and recv != "fresh" and off == 1 and fi.params:
                    amap = dict(amap)
                    amap[fi.params[0]] = recv
                for p, levels in list(mp.items()):
                    levels = tuple(levels)
                    a = amap.get(p)
                    if a is None:
                        continue
                    at = self.taint(a)
                    for src, lvl in at.items():
                        for d in levels:
                            if d == SELF and lvl >= SUB:
                                self.mutation(src, SELF if lvl == SELF else SUB, n, f"passed as '{p}' to {fi.fq}, which mutates it")
                            elif d == SUB and lvl >= SHALLOW:
                                if src[0] in ("def", "class", "module") or (
                                    src[0] == "global" and pkg.elements_immutable(src[1])
                                ):
                                    continue
                                self.mutation(src, SUB, n, f"passed as '{p}' to {fi.fq}, which mutates a sub-object of it")

    # ---- mutation events ----------------------------------------------------------
    def mutation(self, src, depth, node, why):
        if src[0] == "param":
            mp = self.pkg.mut_params[self.fn].setdefault(src[1], set())
            if depth not in mp:
                mp.add(depth)
                self.pkg.changed = True
            return
        if self.collect:
            self.events.append((src, node, why))

    def mutate_expr(self, recv, node, why):
        t = self.taint(recv)
        for src, lvl in t.items():
            if lvl >= SUB:
                self.mutation(src, SELF if lvl == SELF else SUB, node, why)

    def scan_mutations(self):
        """Record every syntactic mutation in the body (summaries + events)."""
        pkg = self.pkg
        fn = self.fn
        for n in fn.owned:
            if isinstance(n, ast.Subscript | ast.Attribute) and isinstance(n.ctx, ast.Store | ast.Del):
                par = pkg.parent.get(n)
                if isinstance(par, ast.AugAssign) and par.target is n:
                    how = "augmented assignment to"
                elif isinstance(n.ctx, ast.Del):
                    how = "del of"
                else:
                    how = "store to"
                kind = "subscript" if isinstance(n, ast.Subscript) else f"attribute .{n.attr}"
                self.mutate_expr(n.value, n, f"{how} {kind} of {ast.unparse(n.value)}")
            elif isinstance(n, ast.Name) and isinstance(n.ctx, ast.Store | ast.Del):
                if n.id in fn.globals_decl:
                    if self.collect:
                        self.events.append((("global", f"{self.mod.name}:{n.id}"), n, f"store to name '{n.id}' declared global"))
                elif n.id in fn.nonlocals_decl:
                    k, where = pkg.resolve_name(fn, n.id)
                    if self.collect and k == "closure":
                        self.events.append((("closure", f"{where.fq}:{n.id}"), n, f"store to nonlocal '{n.id}'"))
            elif isinstance(n, ast.AugAssign) and isinstance(n.target, ast.Name):
                # x += [...] mutates the object x is bound to (list.__iadd__)
                if isinstance(n.op, ast.Add | ast.BitOr | ast.BitAnd | ast.Sub) :
                    t = self.taint(ast.Name(id=n.target.id, ctx=ast.Load()))
                    for src, lvl in t.items():
                        if lvl >= SUB and src[0] != "param":
                            self.mutation(src, SELF if lvl == SELF else SUB, n, f"augmented assignment may mutate the object bound to '{n.target.id}' in place")
            elif isinstance(n, ast.Call):
                f = n.func
                if isinstance(f, ast.Attribute):
                    if f.attr in MUTATORS:
                        g = pkg.resolve_global_expr(fn, self.mod, f.value)
                        if g is not None and g[1] == 0 and g[0][0] == "class" and any(
                            f.attr in ci.methods for ci in pkg.class_mro(g[0][1])
                        ):
                            pass  # Class.method(...) defined in the package, not a container mutator
                        elif g is not None and g[1] == 0 and g[0][0] in ("module", "ext") and g[0][0] == "module":
                            pass  # module.function(...) is a plain function call
                        elif g is not None and g[1] == 0 and g[0][0] == "ext" and isinstance(f.value, ast.Name):
                            # `from x import y; y.append(...)`: y is external state
                            self.mutate_expr(f.value, n, f"call of mutating method .{f.attr}() on {ast.unparse(f.value)}")
                        else:
                            self.mutate_expr(f.value, n, f"call of mutating method .{f.attr}() on {ast.unparse(f.value)}")
                    if f.attr in GLOBAL_SETTER_ATTRS and self.collect:
                        g = pkg.resolve_global_expr(fn, self.mod, f)
                        if g is not None and g[0][0] == "ext":
                            self.events.append((("global", f"ext:{g[0][1]}.{g[0][2]}"), n, f"call of process-global setter {ast.unparse(f)}()"))
                elif isinstance(f, ast.Name):
                    k, _ = pkg.resolve_name(fn, f.id)
                    if f.id in ("setattr", "delattr") and k == "builtin" and n.args:
                        self.mutate_expr(n.args[0], n, f"{f.id}() on {ast.unparse(n.args[0])}")
                    elif f.id in GLOBAL_SETTER_ATTRS and k == "global" and self.collect:
                        ref = pkg.follow_name(fn, self.mod, f.id)
                        if ref is not None and ref[0] == "ext":
                            self.events.append((("global", f"ext:{ref[1]}.{ref[2]}"), n, f"call of process-global setter {f.id}()"))

    # ---- closure escape -----------------------------------------------------------
    def escapes_enclosing(self):
        """True when this nested function may outlive the activation of its enclosing
        function: it is returned / yielded, stored into an attribute, subscript, container or
        global, or used as a decorator result.  Being called directly or handed to a callee as a
        plain argument (re.sub(..., repl), sorted(key=...)) is not an escape."""
        fn = self.fn
        outer = fn.parent
        if outer is None:
            return False
        pkg = self.pkg

        def escaping_use(n):
            prev, cur = n, pkg.parent.get(n)
            while cur is not None and not isinstance(cur, ast.stmt):
                if isinstance(cur, ast.Call) and cur.func is prev and prev is n:
                    return False  # direct call
                if isinstance(cur, ast.keyword):
                    prev, cur = cur, pkg.parent.get(cur)
                    continue
                if isinstance(cur, ast.Call) and cur.func is not prev:
                    cf = cur.func
                    cnm = cf.id if isinstance(cf, ast.Name) else getattr(cf, "attr", None)
                    if cnm in ("sub", "subn", "sorted", "min", "max", "sort", "reduce", "any", "all", "sum"):
                        return False  # callee consumes the function before returning
                if isinstance(cur, ast.Call) and isinstance(cur.func, ast.Attribute) and cur.func.attr in MUTATORS and prev in cur.args:
                    return True  # stored into a container
                if isinstance(cur, ast.Lambda) or isinstance(cur, ast.Yield | ast.YieldFrom):
                    return True
                prev, cur = cur, pkg.parent.get(cur)
            if isinstance(cur, ast.Return):
                return True
            if isinstance(cur, ast.Assign | ast.AnnAssign | ast.AugAssign):
                tgts = cur.targets if isinstance(cur, ast.Assign) else [cur.target]
                for tg in tgts:
                    if isinstance(tg, ast.Attribute | ast.Subscript):
                        return True
                    if isinstance(tg, ast.Name):
                        k, _ = pkg.resolve_name(outer, tg.id)
                        if k == "global":
                            return True
                        # alias of the function in a local: treat as escaping if that local
                        # is itself returned
                        for m in outer.owned:
                            if isinstance(m, ast.Return) and m.value is not None:
                                for x in ast.walk(m.value):
                                    if isinstance(x, ast.Name) and x.id == tg.id:
                                        return True
            return False

        if fn.is_lambda:
            return escaping_use(fn.node)
        name = fn.node.name
        if fn.node.decorator_list:
            pass
        scopes = [outer] + [g for g in outer.nested if g is not fn]
        for sc in scopes:
            for n in sc.owned:
                if isinstance(n, ast.Name) and n.id == name and isinstance(n.ctx, ast.Load):
                    k, where = pkg.resolve_name(sc, name)
                    if not (k in ("local", "closure") and where is outer):
                        continue
                    if sc is not outer:
                        par = pkg.parent.get(n)
                        if isinstance(par, ast.Call) and par.func is n:
                            continue
                        return True
                    if escaping_use(n):
                        return True
        return False

    # ---- E3 ------------------------------------------------------------------------
    def consumed_insensitively(self, node):
        pkg = self.pkg
        par = pkg.parent.get(node)
        if isinstance(par, ast.Call) and node in par.args:
            f = par.func
            if isinstance(f, ast.Name) and f.id in ORDER_SAFE_FUNCS:
                if f.id in ("sorted", "min", "max") and any(kw.arg == "key" for kw in par.keywords):
                    return False
                return True
            if isinstance(f, ast.Attribute) and f.attr in ORDER_SAFE_METHODS and f.attr not in ("append", "get", "setdefault", "copy"):
                return True
            if isinstance(f, ast.Name | ast.Attribute):
                nm = f.id if isinstance(f, ast.Name) else f.attr
                if nm in ("list", "tuple", "iter", "map", "filter", "chain", "reversed"):
                    return self.consumed_insensitively(par)
            return False
        if isinstance(par, ast.Compare) and node in par.comparators:
            return all(isinstance(op, ast.In | ast.NotIn) for op in par.ops)
        if isinstance(par, ast.comprehension) and par.iter is node:
            comp = pkg.parent.get(par)
            if isinstance(comp, ast.SetComp):
                return True
            if isinstance(comp, ast.GeneratorExp | ast.ListComp):
                return self.consumed_insensitively(comp)
            return False
        if isinstance(par, ast.Starred):
            return isinstance(pkg.parent.get(par), ast.Set)
        return False

    def e3_sites(self):
        """-> list of (node, why)"""
        pkg = self.pkg
        sites = []

        def flag(node, why):
            sites.append((node, why))

        for n in self.fn.owned:
            if isinstance(n, ast.For | ast.AsyncFor):
                if ty_is_set(self.ty(n.iter)):
                    flag(n.iter, f"for-loop over set-typed value {ast.unparse(n.iter)}")
            elif isinstance(n, ast.ListComp | ast.GeneratorExp | ast.DictComp):
                for g in n.generators:
                    if ty_is_set(self.ty(g.iter)) and not self.consumed_insensitively(n):
                        kind = {ast.ListComp: "list", ast.GeneratorExp: "generator", ast.DictComp: "dict"}[type(n)]
                        flag(n, f"{kind} comprehension over set-typed value {ast.unparse(g.iter)}")
                        break
            elif isinstance(n, ast.Call):
                self._e3_call(n, flag)
            elif isinstance(n, ast.Assign):
                for tg in n.targets:
                    if isinstance(tg, ast.Tuple | ast.List) and ty_is_set(self.ty(n.value)):
                        flag(n, f"unpacking of set-typed value {ast.unparse(n.value)}")
            elif isinstance(n, ast.Starred) and isinstance(n.ctx, ast.Load):
                if ty_is_set(self.ty(n.value)) and not isinstance(pkg.parent.get(n), ast.Set):
                    if not self.consumed_insensitively(n):
                        flag(n, f"star-unpacking of set-typed value {ast.unparse(n.value)}")
            elif isinstance(n, ast.YieldFrom):
                if ty_is_set(self.ty(n.value)):
                    flag(n, f"yield from set-typed value {ast.unparse(n.value)}")
            elif isinstance(n, ast.FormattedValue):
                if ty_is_set(self.ty(n.value)):
                    flag(n, f"f-string formatting of set-typed value {ast.unparse(n.value)}")
            elif isinstance(n, ast.BinOp) and isinstance(n.op, ast.Mod):
                if isinstance(n.left, ast.JoinedStr) or (isinstance(n.left, ast.Constant) and isinstance(n.left.value, str)):
                    rs = n.right.elts if isinstance(n.right, ast.Tuple) else [n.right]
                    for r in rs:
                        if ty_is_set(self.ty(r)):
                            flag(n, f"%-formatting of set-typed value {ast.unparse(r)}")
            elif isinstance(n, ast.AugAssign) and isinstance(n.op, ast.Add):
                if ty_is_set(self.ty(n.value)):
                    flag(n, f"'+=' with set-typed value {ast.unparse(n.value)} (extends in set order)")
        return sites

    def _e3_call(self, n, flag):
        pkg = self.pkg
        f = n.func
        nm = f.id if isinstance(f, ast.Name) else (f.attr if isinstance(f, ast.Attribute) else None)
        # S.pop()
        if isinstance(f, ast.Attribute) and f.attr == "pop" and not n.args and ty_is_set(self.ty(f.value)):
            flag(n, f"{ast.unparse(f.value)}.pop() removes an arbitrary element of a set")
        # listing functions (E3x handled separately)
        set_args = [a for a in n.args if ty_is_set(self.ty(a.value if isinstance(a, ast.Starred) else a))]
        set_args += [kw.value for kw in n.keywords if ty_is_set(self.ty(kw.value))]
        if not set_args:
            return
        if isinstance(f, ast.Name) and nm in ORDER_SAFE_FUNCS:
            kind, _ = pkg.resolve_name(self.fn, nm)
            if kind == "builtin" or kind == "global":
                if nm in ("sorted", "min", "max") and any(kw.arg == "key" for kw in n.keywords):
                    flag(n, f"{nm}(..., key=...) over a set: ties keep the set's iteration order")
                return
        if isinstance(f, ast.Attribute) and nm in ORDER_SAFE_METHODS and nm not in ("extend",):
            return
        if nm in ("isinstance", "issubclass", "id", "type", "hasattr", "getattr", "callable", "deepcopy"):
            return
        callees = self.resolve_call(n)
        is_builtin_name = isinstance(f, ast.Name) and pkg.resolve_name(self.fn, nm)[0] == "builtin"
        if callees and not is_builtin_name and nm not in ORDER_SENSITIVE_FUNCS:
            # resolved in the package: the callee's parameter becomes set-typed and is
            # checked there; still flag when *args/**kwargs swallow the argument
            for fi, recv, off in callees:
                amap = self.map_args(n, fi, off)
                mapped = set(map(id, amap.values()))
                for a in set_args:
                    if id(a) not in mapped:
                        flag(n, f"set-typed value {ast.unparse(a)} passed to {fi.fq} through */** parameters")
            return
        if self.consumed_insensitively(n):
            return
        for a in set_args:
            if nm in ORDER_SENSITIVE_FUNCS:
                flag(n, f"set-typed value {ast.unparse(a)} consumed in iteration order by {nm}()")
            else:
                flag(n, f"set-typed value {ast.unparse(a)} passed to unresolved callee {ast.unparse(f)}()")

    def e3x_sites(self):
        pkg = self.pkg
        sites = []
        for n in self.fn.owned:
            if not isinstance(n, ast.Call):
                continue
            f = n.func
            nm = f.id if isinstance(f, ast.Name) else (f.attr if isinstance(f, ast.Attribute) else None)
            if nm in LISTING_FUNCS:
                ok = False
                if isinstance(f, ast.Attribute):
                    g = pkg.resolve_global_expr(self.fn, self.mod, f)
                    if g is not None and g[0][0] == "def":
                        ok = True  # a package function that happens to share the name
                if not ok and not self.consumed_insensitively(n):
                    sites.append((n, f"directory listing {ast.unparse(f)}() used without sorted(): order is filesystem dependent"))
            elif isinstance(f, ast.Name) and nm in ("id", "hash") and pkg.resolve_name(self.fn, nm)[0] == "builtin":
                if not self.fn.is_lambda and self.fn.node.name in ("__hash__", "__eq__"):
                    continue
                if isinstance(pkg.parent.get(n), ast.Expr):
                    continue  # value discarded (hashability probe)
                sites.append((n, f"{nm}() value used: depends on memory layout / hash seed"))
        return sites

    # ---- E5 ------------------------------------------------------------------------
    def e5_sites(self):
        """-> (n_occurrences, [(node, why)])"""
        pkg = self.pkg
        fn = self.fn
        tracked = set()
        for nm in fn.locals:
            if WARNINGS_RE.match(nm):
                tracked.add(nm)
        # closure variables named warnings
        occ = []
        for n in fn.owned:
            if isinstance(n, ast.Name) and WARNINGS_RE.match(n.id):
                k, _ = pkg.resolve_name(fn, n.id)
                if k in ("local", "closure"):
                    occ.append(n)
                elif k == "global":
                    ref = pkg.follow_name(fn, self.mod, n.id)
                    if ref is not None and ref[0] in ("module", "ext", "def", "class"):
                        continue
                    occ.append(n)
            elif isinstance(n, ast.Attribute) and WARNINGS_RE.match(n.attr):
                g = pkg.resolve_global_expr(fn, self.mod, n)
                if g is not None and g[0][0] in ("module", "ext", "def", "class"):
                    continue
                occ.append(n)
        # aliases: x = warnings
        alias = set()
        for n in fn.owned:
            if isinstance(n, ast.Assign) and any(n.value is o for o in occ):
                for tg in n.targets:
                    if isinstance(tg, ast.Name) and not WARNINGS_RE.match(tg.id):
                        alias.add(tg.id)
        if alias:
            for n in fn.owned:
                if isinstance(n, ast.Name) and n.id in alias and isinstance(n.ctx, ast.Load):
                    occ.append(n)
        sites = []
        for n in occ:
            why = self._e5_use(n)
            if why:
                sites.append((n, why))
        return len(occ), sites

    def _same_ref(self, a, b):
        return ast.dump(a) == ast.dump(b)

    def _e5_use(self, n):
        pkg = self.pkg
        if isinstance(n.ctx, ast.Store | ast.Del):
            return None
        par = pkg.parent.get(n)
        txt = ast.unparse(n)
        if isinstance(par, ast.Attribute) and par.value is n:
            gp = pkg.parent.get(par)
            if isinstance(gp, ast.Call) and gp.func is par and par.attr in ("append", "extend"):
                return None
            return f"'{txt}.{par.attr}' is not append/extend: the warnings list is inspected or altered"
        if isinstance(par, ast.keyword):
            par2 = pkg.parent.get(par)
            return self._e5_call(par2, n, txt)
        if isinstance(par, ast.Call):
            if par.func is n:
                return f"'{txt}' is called"
            return self._e5_call(par, n, txt)
        if isinstance(par, ast.Compare):
            others = [par.left] + list(par.comparators)
            if all(isinstance(op, ast.Is | ast.IsNot) for op in par.ops) and all(
                (o is n) or (isinstance(o, ast.Constant) and o.value is None) for o in others
            ):
                return None
            return f"'{txt}' is compared ({ast.unparse(par)})"
        if isinstance(par, ast.Return | ast.Yield | ast.Expr | ast.Tuple | ast.List | ast.Starred | ast.withitem | ast.AnnAssign | ast.Await):
            return None
        if isinstance(par, ast.Dict):
            if n in par.values:
                return None
            return f"'{txt}' used as a dict key"
        if isinstance(par, ast.Assign):
            return None
        if isinstance(par, ast.AugAssign):
            return None
        if isinstance(par, ast.NamedExpr):
            return None
        if isinstance(par, ast.BoolOp):
            if isinstance(par.op, ast.Or) and par.values[0] is n and all(
                _is_fresh_list(v) or (isinstance(v, ast.Constant) and v.value is None) for v in par.values[1:]
            ):
                return None
            return f"truth value of '{txt}' used in '{ast.unparse(par)}'"
        if isinstance(par, ast.IfExp):
            if par.test is n:
                if (self._same_ref(par.body, n) and _is_fresh_list(par.orelse)) or (
                    self._same_ref(par.orelse, n) and _is_fresh_list(par.body)
                ):
                    return None
                return f"truth value of '{txt}' selects a branch in '{ast.unparse(par)}'"
            return None
        if isinstance(par, ast.UnaryOp) and isinstance(par.op, ast.Not):
            gp = pkg.parent.get(par)
            if isinstance(gp, ast.If) and gp.test is par and self._defaulting_body(gp.body, n):
                return None
            return f"truth value of '{txt}' used in a condition"
        if isinstance(par, ast.If | ast.While):
            if par.test is n:
                if isinstance(par, ast.If) and self._defaulting_body(par.orelse, n):
                    return None
                return f"truth value of '{txt}' used in a condition"
            return None
        if isinstance(par, ast.For | ast.AsyncFor | ast.comprehension):
            if par.iter is n:
                return f"'{txt}' is iterated"
            return None
        if isinstance(par, ast.Subscript):
            if par.value is n:
                return f"'{txt}' is indexed / sliced"
            return None
        if isinstance(par, ast.FormattedValue | ast.BinOp):
            return f"'{txt}' used in an expression ({ast.unparse(par)})"
        if isinstance(par, ast.Assert):
            return f"'{txt}' used in assert"
        if isinstance(par, ast.Match):
            return f"'{txt}' is matched"
        return f"unrecognised use of '{txt}' in {par.__class__.__name__}"

    def _defaulting_body(self, body, n):
        if len(body) != 1 or not isinstance(body[0], ast.Assign):
            return False
        st = body[0]
        return (
            len(st.targets) == 1
            and self._same_ref_store(st.targets[0], n)
            and _is_fresh_list(st.value)
        )

    def _same_ref_store(self, tg, n):
        try:
            return ast.unparse(tg) == ast.unparse(n)
        except Exception:
            return False

    def _e5_call(self, call, n, txt):
        f = call.func
        if isinstance(f, ast.Name):
            k, _ = self.pkg.resolve_name(self.fn, f.id)
            if k == "builtin" and f.id in INSPECTING_BUILTINS:
                return f"'{txt}' inspected by builtin {f.id}()"
            if f.id in ("isinstance",):
                return None
            return None
        if isinstance(f, ast.Attribute):
            if f.attr in INSPECTING_METHODS:
                return f"contents of '{txt}' consumed by .{f.attr}()"
            return None
        return None


# --------------------------------------------------------------------------------------
# driver
# --------------------------------------------------------------------------------------


def _fake_module_fn(mod):
    node = ast.parse("lambda: None", mode="eval").body
    fi = FuncInfo(mod, "<module>", node, None, None)
    fi.n_positional = 0
    return fi


def _global_type_of(pkg, modname, name):
    key = (modname, name)
    cache = pkg.global_types
    if key in cache:
        return cache[key]
    cache[key] = None  # cycle guard
    mod = pkg.modules.get(modname)
    t = None
    if mod is not None:
        b = mod.bindings.get(name)
        if b is not None and b.kind == "assign" and b.value is not None:
            fa = pkg.module_fa.get(modname)
            if fa is None:
                fn = _fake_module_fn(mod)
                pkg.param_types[fn] = {}
                pkg.ret_taint[fn] = {}
                pkg.ret_type[fn] = None
                pkg.mut_params[fn] = {}
                fa = pkg.module_fa[modname] = FA(pkg, fn)
            t = fa.ty(b.value)
    cache[key] = t
    return t


Package.global_type_of = lambda self, m, n: _global_type_of(self, m, n)


def _load_annotations():
    path = _annotations_path()
    if not os.path.exists(path):
        return []
    with open(path, encoding="utf-8") as f:
        data = json.load(f)
    out = []
    for a in data:
        if isinstance(a, dict) and {"function", "kind", "stmt", "reason"} <= set(a):
            out.append(a)
    return out


def _key_kind(pkg, fa, p, depth=0):
    fn = fa.fn
    ann = fn.param_ann.get(p)
    if ann is not None:
        txt = ast.unparse(ann)
        base = re.sub(r"\s*\|\s*None|Optional\[|\]", "", txt)
        if base in ("str", "int", "bool", "float", "bytes", "None"):
            return base
        return f"object ({txt})"
    d = fn.param_default.get(p)
    if isinstance(d, ast.Constant) and d.value is not None:
        return type(d.value).__name__
    for n in fn.owned:
        if (
            isinstance(n, ast.Attribute)
            and isinstance(n.value, ast.Name)
            and n.value.id == p
            and n.attr in STR_METHODS
        ):
            return "str (inferred from use)"
    if depth < 2:
        for n in fn.owned:
            if isinstance(n, ast.Call):
                for fi, recv, off in fa.resolve_call(n):
                    if recv is not None or fi not in pkg.fa:
                        continue
                    for q, a in fa.map_args(n, fi, off).items():
                        if isinstance(a, ast.Name) and a.id == p:
                            k = _key_kind(pkg, pkg.fa[fi], q, depth + 1)
                            if k.startswith("str"):
                                return "str (inferred from use)"
    return "object"


def _impure_reads(pkg, fa):
    """Sites in this function that read time/random/env/filesystem."""
    out = []
    fn = fa.fn
    for n in fn.owned:
        if isinstance(n, ast.Attribute) and isinstance(n.ctx, ast.Load):
            par = pkg.parent.get(n)
            if isinstance(par, ast.Attribute):
                continue  # look at the outermost attribute only
            g = pkg.resolve_global_expr(fn, fa.mod, n)
            if g is not None and g[0][0] == "ext":
                m, a = g[0][1], g[0][2]
                full = ast.unparse(n)
                root = m.split(".")[0]
                if root in IMPURE_MODULES:
                    out.append((n, f"reads {full} (non-deterministic / environment)"))
                elif root == "os" and (a in IMPURE_OS_ATTRS or (a == "path" and full.split(".")[-1] in IMPURE_OSPATH_ATTRS)):
                    out.append((n, f"reads {full} (environment / filesystem)"))
                elif root in ("datetime",) and full.split(".")[-1] in ("now", "today", "utcnow"):
                    out.append((n, f"reads {full} (clock)"))
                elif root == "sys" and a in ("argv", "stdin", "path", "modules"):
                    out.append((n, f"reads {full} (process state)"))
            elif g is None and isinstance(par, ast.Call) and par.func is n and n.attr in IMPURE_METHODS:
                out.append((n, f"calls .{n.attr}() (filesystem / clock read)"))
        elif isinstance(n, ast.Name) and isinstance(n.ctx, ast.Load):
            k, _ = pkg.resolve_name(fn, n.id)
            if k == "builtin" and n.id in ("open", "input"):
                out.append((n, f"calls builtin {n.id}()"))
            elif k == "global":
                ref = pkg.follow_name(fn, fa.mod, n.id)
                if ref is not None and ref[0] == "ext":
                    root = ref[1].split(".")[0]
                    if root in IMPURE_MODULES or (root == "os" and ref[2] in IMPURE_OS_ATTRS):
                        out.append((n, f"reads {ref[1]}.{ref[2]} (non-deterministic / environment)"))
    return out


def _state_reads(pkg, fa):
    """-> list of (node, sid) for loads of module-level assigned names."""
    out = []
    fn = fa.fn
    for n in fn.owned:
        if isinstance(n, ast.Name | ast.Attribute) and isinstance(getattr(n, "ctx", None), ast.Load):
            par = pkg.parent.get(n)
            if isinstance(n, ast.Name) and isinstance(par, ast.Attribute) and par.value is n:
                g0 = pkg.resolve_global_expr(fn, fa.mod, n)
                if g0 is not None and g0[0][0] == "module":
                    continue  # handled at the attribute
            g = pkg.resolve_global_expr(fn, fa.mod, n)
            if g is not None and g[0][0] == "state":
                if isinstance(par, ast.Attribute) and par.value is n and isinstance(n, ast.Attribute):
                    pass
                out.append((n, f"{g[0][1]}:{g[0][2]}"))
    # de-duplicate nested attribute chains (a.b.c reports once per chain)
    seen = set()
    res = []
    for n, sid in out:
        st = pkg.stmt_of(n)
        k = (id(st), sid)
        if k in seen:
            continue
        seen.add(k)
        res.append((n, sid))
    return res


def analyse(repo_root: str = None) -> dict:
    repo_root = repo_root or _default_repo()
    pkg = Package(repo_root)
    pkg.module_fa = {}
    pkg.fa = {fn: FA(pkg, fn) for fn in pkg.all_functions}
    fas = [pkg.fa[fn] for fn in pkg.all_functions]
    rounds = 0
    for rounds in range(1, 16):
        pkg.changed = False
        pkg.global_types = {}
        for fa in fas:
            fa.step()
            fa.scan_mutations()
        if not pkg.changed:
            break
    pkg.global_types = {}
    for fa in fas:
        fa.collect = True
        fa.events = []
        fa.step()
        fa.scan_mutations()

    annotations = _load_annotations()
    ann_index = {}
    for i, a in enumerate(annotations):
        ann_index.setdefault((a["function"], a["kind"], a["stmt"]), []).append(i)
    ann_used = set()

    obligations = []

    def site_record(node, why):
        st = pkg.stmt_of(node)
        return {"line": getattr(node, "lineno", 0), "stmt": stmt_text(st), "why": why}

    def emit_sites(fn, kind, raw_sites, always=True, extra=None):
        """Function-level obligation + one per flagged statement."""
        by_stmt = {}
        for node, why in raw_sites:
            rec = site_record(node, why)
            by_stmt.setdefault(rec["stmt"], []).append(rec)
        statuses = []
        per_site = []
        for stmt in sorted(by_stmt):
            recs = sorted(by_stmt[stmt], key=lambda r: (r["line"], r["why"]))
            dedup = []
            for r in recs:
                if r not in dedup:
                    dedup.append(r)
            key = (fn.fq, kind, stmt)
            ob = {
                "oid": f"{fn.fq}#frame-{kind}@{hash8(stmt)}",
                "kind": kind,
                "function": fn.fq,
                "file": fn.module.relpath,
                "line": dedup[0]["line"],
                "status": "failed",
                "sites": dedup,
            }
            if key in ann_index:
                i = ann_index[key][0]
                ann_used.update(ann_index[key])
                ob["status"] = "justified"
                ob["reason"] = annotations[i]["reason"]
            statuses.append(ob["status"])
            per_site.append(ob)
        if always or per_site:
            status = "discharged"
            if "failed" in statuses:
                status = "failed"
            elif statuses:
                status = "justified"
            top = {
                "oid": f"{fn.fq}#frame-{kind}",
                "kind": kind,
                "function": fn.fq,
                "file": fn.module.relpath,
                "line": fn.lineno,
                "status": status,
                "sites": [s for ob in per_site for s in ob["sites"]],
            }
            if status == "justified":
                top["reason"] = "; ".join(sorted({ob["reason"] for ob in per_site}))
            if extra:
                top.update(extra)
            obligations.append(top)
        obligations.extend(per_site)
        return per_site

    # ---- E1 ----------------------------------------------------------------------
    mutated_state = {}
    cache_events = {}  # fn -> [(cached fq, node, why)]
    e1_raw = {}
    for fa in fas:
        fn = fa.fn
        raw = []
        for src, node, why in fa.events:
            k = src[0]
            if k == "cache":
                cache_events.setdefault(fn, []).append((src[1], node, why))
                continue
            if k == "closure":
                owner_fq = src[1].split(":")[0]
                f = fn
                esc = False
                while f is not None and f.fq != owner_fq:
                    if pkg.fa[f].escapes_enclosing():
                        esc = True
                        break
                    f = f.parent
                if not esc:
                    continue
                raw.append((node, f"{why}: closure-cell state '{src[1]}' written by a function that escapes its defining call"))
            elif k == "global":
                mutated_state.setdefault(src[1], []).append(fn.fq)
                raw.append((node, f"{why}: writes module-level state {src[1]}"))
            elif k == "module":
                raw.append((node, f"{why}: writes attribute of module {src[1]}"))
            elif k == "def":
                raw.append((node, f"{why}: function-attribute state on {src[1]}"))
            elif k == "class":
                raw.append((node, f"{why}: class-level state of {src[1]}"))
            elif k == "classattr":
                raw.append((node, f"{why}: class-level mutable attribute {src[1]} shared by all instances"))
            elif k == "default":
                raw.append((node, f"{why}: mutable default argument object {src[1]} persists across calls"))
        e1_raw[fn] = raw
    for fa in fas:
        emit_sites(fa.fn, "E1", e1_raw[fa.fn])
        if fa.fn.cached:
            obligations.append(
                {
                    "oid": f"{fa.fn.fq}#frame-E1-cache",
                    "kind": "E1",
                    "function": fa.fn.fq,
                    "file": fa.fn.module.relpath,
                    "line": fa.fn.lineno,
                    "status": "justified",
                    "sites": [{"line": fa.fn.lineno, "stmt": stmt_text(fa.fn.node), "why": "memoising wrapper keeps module-level state"}],
                    "reason": "functools lru_cache/cache wrapper: allowed process-level memo; its transparency is obligation E2",
                }
            )
    for mod in sorted(pkg.modules.values(), key=lambda m: m.name):
        if mod.toplevel_effects:
            obligations.append(
                {
                    "oid": f"{mod.name}#import-time-E1",
                    "kind": "E1",
                    "function": f"{mod.name}.<module>",
                    "file": mod.relpath,
                    "line": mod.toplevel_effects[0].lineno,
                    "status": "justified",
                    "sites": [
                        {"line": st.lineno, "stmt": stmt_text(st), "why": "module top-level effectful statement"}
                        for st in mod.toplevel_effects
                    ],
                    "reason": "import-time code: runs once per process before any conversion (or only under __main__)",
                }
            )

    # ---- E1x ---------------------------------------------------------------------
    for fa in fas:
        fn = fa.fn
        rt = pkg.ret_taint[fn]
        escaping = []
        for src, lvl in sorted(rt.items()):
            if lvl < SUB:
                continue
            if src[0] == "global" and not src[1].startswith("ext:"):
                if pkg.state_mutability(src[1]) != "immutable":
                    escaping.append(src)
            elif src[0] in ("default", "classattr"):
                escaping.append(src)
        if not escaping:
            continue
        sites = []
        for n in fn.owned:
            if isinstance(n, ast.Return) and n.value is not None:
                t = fa.taint(n.value)
                for src in escaping:
                    if t.get(src, 0) >= SUB:
                        sites.append(site_record(n, f"returns {'(part of) ' if t[src] == SUB else ''}{src[0]} state {src[1]} without copying"))
        if fn.is_lambda:
            sites.append(site_record(fn.node, "lambda returns module state"))
        bad = [s for s in escaping if s[0] == "global" and s[1] in mutated_state]
        ob = {
            "oid": f"{fn.fq}#frame-E1x",
            "kind": "E1x",
            "function": fn.fq,
            "file": fn.module.relpath,
            "line": fn.lineno,
            "status": "failed" if bad else "discharged",
            "sites": sites,
            "escapes": [f"{s[0]}:{s[1]}" for s in escaping],
            "note": (
                "escaping state is mutated in: " + ", ".join(sorted({f for s in bad for f in mutated_state[s[1]]}))
                if bad
                else "no function in the package mutates the escaping object (callers outside the package are assumed not to)"
            ),
        }
        obligations.append(ob)

    # ---- E2 ----------------------------------------------------------------------
    cached = [fa for fa in fas if fa.fn.cached]
    global_rebound = set()
    for sid in mutated_state:
        global_rebound.add(sid)
    cached_info = []
    for fa in cached:
        fn = fa.fn
        # (a) transitive reads
        seen = set()
        work = [fa]
        raw = []
        assumes = set()
        while work:
            cur = work.pop()
            if cur.fn in seen:
                continue
            seen.add(cur.fn)
            via = "" if cur is fa else f" (in callee {cur.fn.fq})"
            for node, sid in _state_reads(pkg, cur):
                m = pkg.state_mutability(sid)
                anchor = node if cur is fa else fn.node
                if sid in mutated_state:
                    raw.append((anchor, f"reads module-level state {sid}{via}, which is mutated in {sorted(set(mutated_state[sid]))[0]}"))
                elif m != "immutable":
                    assumes.add(sid)
            for node, why in _impure_reads(pkg, cur):
                anchor = node if cur is fa else fn.node
                raw.append((anchor, why + via))
            for n in cur.fn.owned:
                if isinstance(n, ast.Call):
                    f = n.func
                    for fi, recv, off in cur.resolve_call(n):
                        if recv is None or recv == "fresh":
                            if fi in pkg.fa:
                                work.append(pkg.fa[fi])
        keys = {p: _key_kind(pkg, fa, p) for p in fn.params}
        emit_sites(
            fn,
            "E2",
            raw,
            extra={
                "cache_keys": keys,
                "object_keys": sorted(p for p, k in keys.items() if k.startswith("object")),
                "assumes_never_mutated": sorted(assumes),
            },
        )
        cached_info.append(
            {
                "function": fn.fq,
                "file": fn.module.relpath,
                "line": fn.lineno,
                "decorator": [ast.unparse(d) for d in fn.node.decorator_list],
                "cache_keys": keys,
                "object_keys": sorted(p for p, k in keys.items() if k.startswith("object")),
                "returns_set": ty_is_set(pkg.ret_type[fn]),
            }
        )
    # (b) call sites
    cached_fq = {fa.fn.fq for fa in cached}
    for fa in fas:
        fn = fa.fn
        calls = {}
        for n in fn.owned:
            if isinstance(n, ast.Call):
                for fi, recv, off in fa.resolve_call(n):
                    if fi.cached and (recv is None):
                        calls.setdefault(fi.fq, []).append(n)
        evs = cache_events.get(fn, [])
        ev_by = {}
        for cfq, node, why in evs:
            ev_by.setdefault(cfq, []).append((node, why))
        for cfq in sorted(set(calls) | set(ev_by)):
            muts = ev_by.get(cfq, [])
            if muts:
                raw = [(node, f"{why}: mutates the object returned by cached function {cfq} (shared with every later cache hit)") for node, why in muts]
                emit_sites(fn, "E2", raw, always=False)
            else:
                stmts = sorted({stmt_text(pkg.stmt_of(n)) for n in calls[cfq]})
                for stmt in stmts:
                    lines = [n.lineno for n in calls[cfq] if stmt_text(pkg.stmt_of(n)) == stmt]
                    obligations.append(
                        {
                            "oid": f"{fn.fq}#frame-E2@{hash8(stmt)}",
                            "kind": "E2",
                            "function": fn.fq,
                            "file": fn.module.relpath,
                            "line": min(lines),
                            "status": "discharged",
                            "sites": [],
                            "note": f"call site of cached {cfq}: result not mutated",
                        }
                    )

    # ---- E3 / E3x / E5 -----------------------------------------------------------
    for fa in fas:
        emit_sites(fa.fn, "E3", fa.e3_sites())
        emit_sites(fa.fn, "E3x", fa.e3x_sites(), always=False)
        nocc, sites = fa.e5_sites()
        if nocc:
            emit_sites(fa.fn, "E5", sites)

    # unique oids (same stmt hash may be emitted twice for E2)
    seen = {}
    uniq = []
    for ob in obligations:
        if ob["oid"] in seen:
            prev = seen[ob["oid"]]
            if prev["status"] == "discharged" and ob["status"] != "discharged":
                uniq[uniq.index(prev)] = ob
                seen[ob["oid"]] = ob
            continue
        seen[ob["oid"]] = ob
        uniq.append(ob)
    obligations = sorted(uniq, key=lambda o: (o["function"], o["kind"], o["oid"]))

    module_state = {}
    module_state_unknown = {}
    for mod in sorted(pkg.modules.values(), key=lambda m: m.name):
        names, unk = [], []
        for nm, b in sorted(mod.bindings.items()):
            if b.kind != "assign":
                continue
            m = pkg.mutability(mod, b.value)
            if m == "mutable":
                names.append(nm)
            elif m == "unknown":
                unk.append(nm)
        if names:
            module_state[mod.name] = names
        if unk:
            module_state_unknown[mod.name] = unk

    stale = [annotations[i] for i in range(len(annotations)) if i not in ann_used]
    return {
        "repo": repo_root,
        "functions": len(pkg.all_functions),
        "modules": len(pkg.modules),
        "rounds": rounds,
        "obligations": obligations,
        "cached_functions": cached_info,
        "module_state": module_state,
        "module_state_unknown": module_state_unknown,
        "mutated_module_state": {k: sorted(set(v)) for k, v in sorted(mutated_state.items())},
        "stale_annotations": stale,
    }


# --------------------------------------------------------------------------------------
# CLI
# --------------------------------------------------------------------------------------


def summary_counts(result, kind=None):
    counts = {}
    for ob in result["obligations"]:
        if kind and ob["kind"] != kind:
            continue
        counts.setdefault(ob["kind"], {}).setdefault(ob["status"], 0)
        counts[ob["kind"]][ob["status"]] += 1
    return counts


def print_report(result, kind=None, out=sys.stdout):
    w = out.write
    w(f"pyvc.effects: repo={result['repo']} modules={result['modules']} functions={result['functions']} (fixpoint rounds: {result['rounds']})\n")
    counts = summary_counts(result, kind)
    w(f"{'kind':<6}{'discharged':>12}{'justified':>12}{'failed':>10}{'total':>8}\n")
    for k in sorted(counts):
        c = counts[k]
        tot = sum(c.values())
        w(f"{k:<6}{c.get('discharged', 0):>12}{c.get('justified', 0):>12}{c.get('failed', 0):>10}{tot:>8}\n")
    for status in ("failed", "justified"):
        obs = [
            o
            for o in result["obligations"]
            if o["status"] == status and (not kind or o["kind"] == kind) and ("@" in o["oid"] or o["kind"] == "E1x" or "frame-E1-cache" in o["oid"] or "import-time" in o["oid"] or (o["kind"] == "E2" and o["sites"]))
        ]
        if not obs:
            continue
        w(f"\n== {status.upper()} ({len(obs)} site obligations) ==\n")
        for o in obs:
            w(f"[{o['kind']}] {o['oid']}  {o['file']}:{o['line']}\n")
            for s in o["sites"]:
                w(f"      L{s['line']}: {s['stmt']}\n        -> {s['why']}\n")
            if o.get("reason"):
                w(f"      justified: {o['reason']}\n")
            if o.get("note"):
                w(f"      note: {o['note']}\n")
    e1x = [o for o in result["obligations"] if o["kind"] == "E1x" and o["status"] == "discharged" and (not kind or kind == "E1x")]
    if e1x:
        w(f"\n== ESCAPING MODULE STATE (E1x, discharged: no in-package mutation) ==\n")
        for o in e1x:
            w(f"[E1x] {o['oid']}  {o['file']}:{o['line']}  escapes={o['escapes']}\n")
    if not kind or kind == "E2":
        w("\n== CACHED FUNCTIONS ==\n")
        for c in result["cached_functions"]:
            w(f"  {c['function']} {c['decorator']} keys={c['cache_keys']} object_keys={c['object_keys']} returns_set={c['returns_set']}\n")
    if result["stale_annotations"]:
        w("\n== STALE ANNOTATIONS (match no flagged site) ==\n")
        for a in result["stale_annotations"]:
            w(f"  {a['function']} {a['kind']} {a['stmt']!r}\n")


def main(argv=None):
    import argparse

    ap = argparse.ArgumentParser(prog="pyvc.effects")
    ap.add_argument("--json", action="store_true")
    ap.add_argument("--kind")
    ap.add_argument("--selftest", action="store_true")
    ap.add_argument("--repo")
    args = ap.parse_args(argv)
    if args.selftest:
        return selftest()
    res = analyse(args.repo)
    if args.json:
        if args.kind:
            res = dict(res)
            res["obligations"] = [o for o in res["obligations"] if o["kind"] == args.kind]
        json.dump(res, sys.stdout, indent=1, sort_keys=True)
        sys.stdout.write("\n")
    else:
        print_report(res, args.kind)
    return 0


def _failed_oids(result):
    return {(o["oid"], o["kind"]) for o in result["obligations"] if o["status"] == "failed"}


def _edit(root, rel, old, new, count=1):  # textual mutation of a copied source file
    path = os.path.join(root, rel)
    with open(path, encoding="utf-8") as f:
        src = f.read()
    if src.count(old) < 1:
        raise RuntimeError(f"selftest anchor not found in {rel}: {old!r}")
    src = src.replace(old, new, count)
    with open(path, "w", encoding="utf-8") as f:
        f.write(src)


SELFTEST_MUTATIONS = [
    # (name, expected kind or None for "no new failures", [(file, old, new)])
    (
        "1 module-level memo dict written in Survey.xml",
        "E1",
        [
            ("pyxform/survey.py", "SELECT_TYPES = set(aliases.select)\n", "SELECT_TYPES = set(aliases.select)\n_MEMO = {}\n"),
            ("pyxform/survey.py", "        self.validate()\n        self._setup_xpath_dictionary()", "        _MEMO[self.name] = 1\n        self.validate()\n        self._setup_xpath_dictionary()"),
        ],
    ),
    (
        "2 NSMAP mutated through an alias in Survey.get_nsmap",
        "E1",
        [("pyxform/survey.py", "nsmap = NSMAP.copy()", "nsmap = NSMAP")],
    ),
    (
        "3 join over a set comprehension",
        "E3",
        [
            (
                "pyxform/survey.py",
                "        root_node_name = self.name\n",
                "        names = {e.name for e in self.children}\n        if len(names) > 1000:\n            return \", \".join(names)\n        root_node_name = self.name\n",
            )
        ],
    ),
    (
        "4 QUESTION_TYPE_DICT entry mutated in place in Question.__init__",
        "E1",
        [
            (
                "pyxform/question.py",
                "        self._qtd_defaults = qtd.get(type_arg)\n",
                "        self._qtd_defaults = qtd.get(type_arg)\n        QUESTION_TYPE_DICT[type_arg][\"bind\"][\"x\"] = 1\n",
            )
        ],
    ),
    (
        "4b QUESTION_TYPE_DICT entry mutated through the alias self._qtd_defaults",
        "E1",
        [
            (
                "pyxform/question.py",
                "        self._qtd_defaults = qtd.get(type_arg)\n",
                "        self._qtd_defaults = qtd.get(type_arg)\n        self._qtd_defaults[\"bind\"][\"x\"] = 1\n",
            )
        ],
    ),
    (
        "5 conversion branches on len(warnings) in workbook_to_json",
        "E5",
        [
            (
                "pyxform/xls2json.py",
                "    warnings = coalesce(warnings, [])\n",
                "    warnings = coalesce(warnings, [])\n    if len(warnings) > 3:\n        return\n",
            )
        ],
    ),
    (
        "5b mutation of a cached function's result (read_tags)",
        "E2",
        [
            (
                "pyxform/validators/pyxform/iana_subtags/validation.py",
                "def get_languages_with_bad_tags(languages):\n",
                "def _selftest_cached_use():\n    tags = read_tags(\"x\")\n    tags.add(\"zz\")\n    return tags\n\n\ndef get_languages_with_bad_tags(languages):\n",
            )
        ],
    ),
    (
        "7 NSMAP.update(...) on the module-level table itself",
        "E1",
        [("pyxform/survey.py", "            nsmap = NSMAP.copy()\n", "            nsmap = NSMAP.copy()\n            NSMAP.update({\"xmlns:zz\": \"zz\"})\n")],
    ),
    (
        "8 cache stored on the class (type(self).<attr> = ...) in Survey.xml",
        "E1",
        [
            (
                "pyxform/survey.py",
                "        self.validate()\n        self._setup_xpath_dictionary()",
                "        type(self)._xml_cache = {self.name: 1}\n        self.validate()\n        self._setup_xpath_dictionary()",
            )
        ],
    ),
    (
        "9 join over set(...) in a message",
        "E3",
        [
            (
                "pyxform/utils.py",
                "def has_external_choices(json_struct):\n",
                "def has_external_choices(json_struct):\n    _msg = \", \".join(set(json_struct))\n",
            )
        ],
    ),
    (
        "6a rename a local variable",
        None,
        [("pyxform/survey.py", "root_node_name", "root_name", 99)],
    ),
    (
        "6b reorder two independent statements",
        None,
        [
            (
                "pyxform/survey.py",
                "        search_lists = set()\n        non_search_lists = set()\n",
                "        non_search_lists = set()\n        search_lists = set()\n",
            )
        ],
    ),
    (
        "6c shift every line (comment block added at the top of each touched file)",
        None,
        [
            ("pyxform/survey.py", '"""', '# selftest\n# selftest\n\n"""'),
            ("pyxform/utils.py", '"""', '# selftest\n# selftest\n\n"""'),
            ("pyxform/xls2json.py", '"""', '# selftest\n# selftest\n\n"""'),
        ],
    ),
]




# synthetic package exercising each rule; lines carrying an expected failure are marked '# E..'
_SYNTH_CONSTS = '''TABLE = {"a": {"x": 1}}
FLAT = {"a": "b"}
NAMES = ["a"]
SETC = {"p", "q"}
'''

_SYNTH_MAIN = r'''import os, sys, csv
from functools import lru_cache, cache
from pyxform import consts
from pyxform.consts import TABLE, NAMES, SETC
from . import consts as c2

COUNTER = 0
REG = []

class K:
    shared = {}
    def __init__(self): self.own = []
    def f1(self): self.shared["k"] = 1            # E1 classattr
    def f2(self): type(self).zzz = 1             # E1 class
    def f3(self): self.__class__.zzz = 1         # E1 class
    @classmethod
    def f4(cls): cls.registry = {}                # E1 class
    def f5(self): self.own.append(1)             # ok
    def f6(self): K.shared = {}                   # E1 class via name

def g1():
    global COUNTER
    COUNTER += 1                                  # E1
def g2(x=[]):
    x.append(1)                                   # E1 default
    return x
def g3():
    REG.append(1)                                 # E1
def g4():
    REG = []                                      # local shadow: ok
    REG.append(1)
def g5():
    consts.NAMES.append("b")                      # E1
    c2.TABLE["z"] = {}                            # E1
def g6():
    t = TABLE.get("a")
    t["y"] = 2                                    # E1 alias
def g7():
    t = dict(TABLE)
    t["q"] = 1                                    # ok
    t["a"]["y"] = 1                               # E1 shallow
def g8():
    t = {**TABLE}
    t["q"] = 1                                    # ok
def g9():
    setattr(consts, "X", 1)                       # E1
    os.environ["A"] = "1"                         # E1
def g10():
    g10.calls = 1                                 # E1 function attr
def g11():
    for k, v in TABLE.items():
        v["n"] = 1                                # E1
def ret_state():
    return NAMES                                  # E1x
def g12():
    ret_state().append(1)                         # E1
def helper(d):
    d["k"] = 1
def g13():
    helper(TABLE)                                 # E1 via summary
def g14():
    import copy
    t = copy.deepcopy(TABLE); t["a"]["x"] = 2     # ok
def counter():
    n = 0
    def inc():
        nonlocal n
        n += 1                                    # E1 closure (escapes)
        return n
    return inc
def g15(xs):
    acc = []
    def add(x): acc.append(x)                     # ok: not escaping
    for x in xs: add(x)
    return acc

@lru_cache(maxsize=None)
def cached(a: str):
    return [a, len(REG)]                          # E2a: reads mutated REG
@cache
def cached2(a):
    return os.environ.get(a)                      # E2a env
def use_cached():
    r = cached("x")
    r.append(1)                                   # E2b
def use_cached_ok():
    r = list(cached("x"))
    r.append(1)

# ---- E3
def s1(xs: set[str]):
    for x in xs: print(x)                         # E3
    return sorted(xs)
def s2(d):
    acc = {}
    for k in d:
        acc[k] = acc.get(k, set()) | {1}
    for k, vs in acc.items():
        for v in vs: pass                         # E3
def s3():
    a = set(); b = frozenset([1])
    l = list(a)                                   # E3
    t = tuple(a | b)                              # E3
    n = next(iter(a))                             # E3
    p = a.pop()                                   # E3
    x, y = b                                      # E3
    s = f"{a}"                                    # E3
    s2 = "%s" % a                                 # E3
    s3 = str(a)                                   # E3
    d = dict.fromkeys(a)                          # E3
    for i, e in enumerate(a): pass                # E3
    z = zip(a, [1])                               # E3
    j = ", ".join(a)                              # E3
    ok1 = sorted(a); ok2 = len(a); ok3 = 1 in a; ok4 = any(x for x in a); ok5 = {x for x in a}
    ok6 = set(x for x in a); ok7 = max(a); ok8 = sorted([x for x in a])
    bad = [x for x in a]                          # E3
    bad2 = {x: 1 for x in a}                      # E3
    w = csv.writer(sys.stdout); w.writerow(a)     # E3
    return [*a]                                   # E3
def s4():
    for x in SETC: pass                           # E3 module-level set
    for x in consts.SETC: pass                    # E3
def s5(d1, d2):
    for k in d1.keys() - d2.keys(): pass          # E3 keys view difference
def s6():
    for f in os.listdir("."): pass                # E3x
    for f in sorted(os.listdir(".")): pass        # ok
    return f"{id(s6)}"                            # E3x
def passes_set():
    callee_iter({1, 2})
def callee_iter(items):
    return [i for i in items]                     # E3 via call-site param inference
def s7(x):
    match x:
        case {"a": v} if (n := len(v)) > 1:
            return n
        case [a, *rest]:
            return isinstance(a, int | str)
        case _:
            return None

# ---- E5
def w1(warnings=None):
    if warnings is None:
        warnings = []
    warnings.append("x")
    other(warnings=warnings)
    return warnings
def w2(warnings):
    if len(warnings) > 1: return 1                # E5
    for w in warnings: pass                       # E5
    if warnings: pass                             # E5
    x = warnings[0]                               # E5
    if "a" in warnings: pass                      # E5
    warnings.clear()                              # E5
def w3(warnings=None):
    warnings = warnings or []
    if not warnings:
        warnings = []
    return {"warnings": warnings}
def other(warnings): warnings.extend(["a"])
class W:
    def __init__(self): self.warnings = []
    def m(self):
        self.warnings.append(1)
        return "\n".join(self.warnings)           # E5
def li():
    from pyxform.consts import NAMES as N2
    import pyxform.consts as C
    N2.append(1)                                  # E1
    C.TABLE["q"] = {}                             # E1
    for x in C.SETC: pass                         # E3
'''


def _rules_selftest(work, out):
    root = os.path.join(work, "synth")
    os.makedirs(os.path.join(root, "pyxform"))
    for name, text in (("__init__.py", ""), ("consts.py", _SYNTH_CONSTS), ("m.py", _SYNTH_MAIN)):
        with open(os.path.join(root, "pyxform", name), "w", encoding="utf-8") as f:
            f.write(text)
    saved = os.environ.get("VERIF_EFFECTS_ANNOTATIONS")
    os.environ["VERIF_EFFECTS_ANNOTATIONS"] = os.path.join(root, "no-annotations.json")
    try:
        res = analyse(root)
    finally:
        if saved is None:
            del os.environ["VERIF_EFFECTS_ANNOTATIONS"]
        else:
            os.environ["VERIF_EFFECTS_ANNOTATIONS"] = saved
    src = _SYNTH_MAIN.split("\n")
    expected = {}
    for i, line in enumerate(src, 1):
        if "# E" in line:
            tag = line.split("# ")[-1].split()[0].split(":")[0]
            expected[i] = {"E2a": "E2", "E2b": "E2"}.get(tag, tag)
    got = {}
    for o in res["obligations"]:
        if o["status"] == "failed" and o["file"].endswith("m.py"):
            for st in o["sites"]:
                got.setdefault(st["line"], set()).add(o["kind"])
    missed = [ln for ln, k in expected.items() if k not in got.get(ln, set())]
    spurious = [ln for ln in got if ln not in expected]
    ok = not missed and not spurious
    detail = f"{len(expected)} expected sites flagged, no unexpected site"
    if not ok:
        detail = "missed lines %s, unexpected lines %s" % (
            [(ln, src[ln - 1].strip()) for ln in missed],
            [(ln, src[ln - 1].strip()) for ln in spurious],
        )
    out.write(f"{'PASS' if ok else 'FAIL'}  R synthetic rule suite: {detail}\n")
    return ok


def selftest(repo_root=None, out=sys.stdout):
    import shutil
    import tempfile

    repo_root = repo_root or _default_repo()
    base_dir = os.environ.get("TMPDIR") or "/tmp"
    work = tempfile.mkdtemp(prefix="pyvc-effects-selftest-", dir=base_dir)
    ok_all = True
    try:
        base = os.path.join(work, "base")
        os.makedirs(base)
        shutil.copytree(
            os.path.join(repo_root, "pyxform"),
            os.path.join(base, "pyxform"),
            ignore=shutil.ignore_patterns("__pycache__", "*.pyc", "*.jar"),
        )
        base_failed = _failed_oids(analyse(base))
        real_failed = _failed_oids(analyse(repo_root))
        same = base_failed == real_failed
        out.write(f"{'PASS' if same else 'FAIL'}  0 unmutated copy gives the same failed set as {repo_root} ({len(base_failed)} failed)\n")
        ok_all &= same
        ok_all &= _rules_selftest(work, out)
        for i, (name, kind, edits) in enumerate(SELFTEST_MUTATIONS):
            mdir = os.path.join(work, f"m{i}")
            shutil.copytree(base, mdir)
            try:
                for e in edits:
                    _edit(mdir, *e)
                got = _failed_oids(analyse(mdir))
            except Exception as exc:  # noqa: BLE001 - report and continue
                out.write(f"FAIL  {name}: {exc.__class__.__name__}: {exc}\n")
                ok_all = False
                continue
            finally:
                shutil.rmtree(mdir, ignore_errors=True)
            new = sorted(got - base_failed)
            if kind is None:
                ok = not new
                detail = "no new failed obligations" if ok else f"unexpected new failures: {[o for o, _ in new]}"
            else:
                hits = [o for o, k in new if k == kind]
                ok = bool(hits)
                detail = f"new {kind} failure(s): {hits}" if ok else f"no new {kind} failure (new: {[o for o, _ in new]})"
            out.write(f"{'PASS' if ok else 'FAIL'}  {name}: {detail}\n")
            ok_all &= ok
    finally:
        shutil.rmtree(work, ignore_errors=True)
    out.write(f"selftest: {'PASS' if ok_all else 'FAIL'}\n")
    return 0 if ok_all else 1


if __name__ == "__main__":
    sys.exit(main())
