"""Reference syntax check skipped with clean_text_values=no; smart-quoted text checked before the quotes are replaced."""
import sys
from pyxform.errors import PyXFormError
from pyxform.xls2xform import convert

MD = "| survey |\n| | type | name | label |\n| | text | a | A |\n| | text | b | %s |\n| settings |\n| | clean_text_values |\n| | %s |\n"
def outcome(label, setting):
    try:
        xform = convert(xlsform=MD % (label, setting), file_type=".md", form_name="data").xform
        return xform[xform.index("<h:body>"):]
    except PyXFormError as e:
        return "refused: " + str(e)
bad = []
# 1. a malformed reference is refused whatever the setting is
if outcome("B ${a", "yes") != outcome("B ${a", "no"):
    bad.append(("clean_text_values=no", outcome("B ${a", "no")))
# 2. smart quotes and straight quotes are the same text
if outcome("‘${a’", "yes") != outcome("'${a'", "yes"):
    bad.append(("smart quotes", outcome("‘${a’", "yes")))
print(bad)
sys.exit(1 if bad else 0)
