"""Option.to_json_dict drops extra choices columns: <item> children of the choices instance are lost on reload."""
import json, sys
from pyxform.builder import create_survey_element_from_dict
from pyxform.xls2xform import convert

MD = ("| survey |\n| | type | name | label | choice_filter |\n| | text | c | C | |\n"
      "| | select_one l | q | Q | country=${c} |\n"
      "| choices |\n| | list_name | name | label | country |\n| | l | a | A | fr |\n| | l | b | B | de |\n")
survey = convert(xlsform=MD, file_type=".md", form_name="data")._survey
reloaded = create_survey_element_from_dict(json.loads(json.dumps(survey.to_json_dict())))
assert "<country>fr</country>" in survey.to_xml(validate=False)
sys.exit(0 if reloaded.to_xml(validate=False) == survey.to_xml(validate=False) else 1)
