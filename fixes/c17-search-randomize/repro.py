"""search() appearance with parameters randomize=true: AttributeError 'NoneType' has no attribute 'used_by_search'."""
import sys
from pyxform.errors import PyXFormError
from pyxform.xls2xform import convert

MD = ("| survey |\n| | type | name | label | appearance | parameters |\n| | begin repeat | rr | RR | | |\n"
      "| | text | r | R | | |\n| | end repeat | | | | |\n| | %s | q | Q | search('fruits') | %s |\n"
      "| choices |\n| | list_name | name | label |\n| | l | n | L |\n")
ITEMS = "<label>Q</label><item><label>L</label><value>n</value></item>"
bad = []
for select, parameters in (("select_one l", "randomize=true"), ("select_multiple l", "randomize=true, seed=3"),
                           ("select_one l", ""), ("select_one ${r}", "")):
    try:
        xform = convert(xlsform=MD % (select, parameters), file_type=".md", form_name="data").xform
        if ITEMS not in xform:
            bad.append((select, parameters, "no in-line items"))
    except PyXFormError as e:
        print("refused:", select, e)
    except Exception as e:  # the defect
        bad.append((select, parameters, type(e).__name__, str(e)))
print(bad)
sys.exit(1 if bad else 0)
