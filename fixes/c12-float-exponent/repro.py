"""An xlsx decimal cell 0.00001 is read as '1e-05' (not an xsd:decimal); the same cell in Markdown/CSV is '0.00001'."""
import io, sys
from openpyxl import Workbook
from pyxform.xls2json_backends import xls_value_to_unicode
from pyxform.xls2xform import convert
wb = Workbook()
ws = wb.active
ws.title = "survey"
for row in (["type", "name", "label", "default"], ["decimal", "q", "Q", 0.00001]):
    ws.append(row)
buf = io.BytesIO()
wb.save(buf)
xform = convert(xlsform=buf.getvalue(), file_type=".xlsx", form_name="data").xform
ok = "<q>0.00001</q>" in xform and xls_value_to_unicode(0.00001, 2, 0) == "0.00001"
sys.exit(0 if ok else 1)
