"""A survey column `Disabled` is not recognised as `disabled`: the row marked yes is still output, with no warning."""
import sys
from pyxform.errors import PyXFormError
from pyxform.xls2xform import convert

MD = "| survey |\n| | type | name | label | %s |\n| | text | q1 | Q1 | yes |\n| | text | q2 | Q2 | |\n| | text | q3 | Q3 | no |\n"
bad = []
for header in ("disabled", "Disabled", "DISABLED", " disabled "):
    result = convert(xlsform=MD % header, file_type=".md")
    warned = [w for w in result.warnings if "'disabled' column header is not part of the current spec" in w]
    if "q1" in result.xform or "<q2/><q3/>" not in result.xform or len(warned) != 2:
        bad.append((header, "q1" in result.xform, result.warnings))
try:  # disabled holds one value per row
    convert(xlsform=MD % "Disabled::en", file_type=".md")
    bad.append("Disabled::en accepted")
except PyXFormError as e:
    bad += [] if "'disabled' column header must have 1 part(s)" in str(e) else [str(e)]
sys.exit(print("wrong:", bad) or 1 if bad else 0)
