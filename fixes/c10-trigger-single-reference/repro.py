"""trigger cell `${a}, ${b}` is accepted but the calculation is emitted nowhere (no setvalue, no bind calculate)."""
import sys
from pyxform.errors import PyXFormError
from pyxform.xls2xform import convert

MD = ("| survey |\n| | type | name | label | calculation | trigger |\n| | text | a | A | | |\n| | text | b | B | | |\n"
      "| | calculate | c | | ${a} + 1 | %s |\n")
assert 'ref="/data/c" event="xforms-value-changed" value=" /data/a  + 1"' in convert(xlsform=MD % "${a}", file_type=".md", form_name="data").xform
try:
    xform = convert(xlsform=MD % "${a}, ${b}", file_type=".md", form_name="data").xform
except PyXFormError as e:
    sys.exit(0 if "[row : 4]" in str(e) and "'trigger'" in str(e) else 1)
sys.exit(0 if "/data/a  + 1" in xform else 1)  # accepted: then the calculation must be somewhere
