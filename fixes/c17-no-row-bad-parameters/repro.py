"""An unknown or invalid parameter (row 2: select_one with parameters 'foo=1'; likewise randomize=maybe, a malformed 'rows', non-numeric range start) is refused with "Accepted parameters are 'randomize, seed'. The following are invalid parameter(s): 'foo'." - no spreadsheet row is cited (only a few parameter checks, e.g. text rows=x, do cite it)."""
import sys
from pyxform.errors import PyXFormError
from pyxform.xls2xform import convert

MD = '| survey |\n| | type | name | label | parameters |\n| | select_one l | s | S | foo=1 |\n| choices |\n| | list_name | name | label |\n| | l | x | X |\n'
try:
    convert(xlsform=MD, file_type=".md")
    print("accepted"); sys.exit(1)
except PyXFormError as e:
    print(e)
    sys.exit(0 if "[row : 2]" in str(e) else 1)  # the error belongs to spreadsheet row 2
