"""Validator diagnostics: instance paths whose names contain '.' or non-ASCII letters are mangled, not shown as ${name}."""
import sys
from pyxform.validators.error_cleaner import ErrorCleaner

bad = 0
for raw, want in [
    ("Problem found at nodeset: /data/hh.info/age.calc", "Problem found at nodeset: ${age.calc}"),
    ("type mismatch at /data/ménage/âge.", "type mismatch at ${âge}."),
    ("Problem found at nodeset: /data/hh-info/age_calc.", "Problem found at nodeset: ${age_calc}."),
]:
    got = ErrorCleaner.odk_validate(raw)
    if got != want:
        bad += 1; print("got %r, expected %r" % (got, want))
sys.exit(1 if bad else 0)
