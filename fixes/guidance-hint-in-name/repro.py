import sys, re
from pyxform.xls2xform import convert
md = """
| survey |
| | type | name | label::en | label::fr |
| | text | guidance_hint_q | Q | Q fr |
"""
x = convert(xlsform=md, file_type=".md").xform
refs = set(re.findall(r"jr:itext\('([^']+)'\)", x))
ids = set(re.findall(r'<text id="([^"]+)"', x))
sys.exit(0 if refs <= ids else 1)
