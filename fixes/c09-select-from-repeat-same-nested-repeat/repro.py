"""select_one ${q} in the same nested repeat as q: itemset nodeset is `..[./q != '']` (a predicate on the abbreviated step)."""
import re
import sys
from pyxform.xls2xform import convert

MD = """
| survey |
| | type | name | label |
| | begin repeat | out | O |
| | begin repeat | rep | R |
| | text | q | Q |
| | select_one ${q} | s | S |
| | end repeat | | |
| | end repeat | | |
"""
xform = convert(xlsform=MD, file_type=".md", form_name="data").xform
nodeset = re.search(r'<itemset nodeset="([^"]*)"', xform).group(1)
print(nodeset)
# Without the outer repeat the same rows give ../../rep[./q != '']: all instances of rep.
# XPath 1.0: Step ::= AxisSpecifier NodeTest Predicate* | AbbreviatedStep; `..` takes no predicate.
sys.exit(1 if re.match(r"\.\.?\[", nodeset) else 0)
