import re, sys
from pyxform.xls2xform import convert
def relevant(second):
    md = ("| survey |\n| | type | name | label | relevant |\n| | begin repeat | outer | O | |\n"
          "| | begin repeat | rep | A | |\n| | text | y | Y | |\n| | end repeat | | | |\n"
          "| | begin repeat | %s | B | |\n| | text | z | Z | ${y} = 1 |\n| | end repeat | | | |\n"
          "| | end repeat | | | |\n") % second
    return re.search(r'relevant="([^"]*)"', convert(xlsform=md, file_type=".md").xform).group(1).strip()
ok, bad = " ".join(relevant("other").split()), " ".join(relevant("rep2").split())  # only the 2nd repeat name differs
print("sibling 'other':", ok, "| sibling 'rep2':", bad)
# from /data/outer/rep2/z the node /data/outer/rep/y is ../../rep/y ; '../y' is /data/outer/rep2/y (no such node)
sys.exit(0 if ok == bad == "../../rep/y = 1" else 1)
