"""namespaces setting with an invalid / reserved prefix or an empty URI is copied to <h:html>: XForm not well-formed."""
import sys
import xml.etree.ElementTree as ET
from pyxform.errors import PyXFormError
from pyxform.xls2xform import convert

MD = "| survey |\n| | type | name | label |\n| | text | q | L |\n| settings |\n| | namespaces |\n| | %s |\n"
bad = 0
for ns in ('1a="http://u"', 'a@b="http://u"', 'xml="http://u"', 'p=""', 'ok="http://u" ok.2=http://v'):
    try:
        ET.fromstring(convert(xlsform=MD % ns, file_type=".md").xform.encode())
    except (PyXFormError, ET.ParseError) as e:  # ParseError: accepted, but the XForm is not well-formed
        bad += "ok" in ns or "'namespaces' value" not in str(e)  # valid declarations must stay accepted
sys.exit(1 if bad else 0)
