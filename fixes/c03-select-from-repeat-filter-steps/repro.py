import re, sys
from pyxform.xls2xform import convert
def nodeset(other):
    md = ("| survey |\n| | type | name | label | choice_filter |\n"
          "| | begin repeat | rep | R | |\n| | text | q | Q | |\n| | integer | age | A | |\n| | end repeat | | | |\n"
          "| | integer | %s | M | |\n"
          "| | select_one ${q} | s | S | ${age} > ${%s} |\n") % (other, other)
    x = convert(xlsform=md, file_type=".md").xform
    return " ".join(re.search(r'<itemset nodeset="([^"]*)"', x).group(1).split())
ok, bad = nodeset("min_age"), nodeset("rep_min")  # only the name of the question outside the repeat differs
print("min_age:", ok, "| rep_min:", bad)
# ${age} is in the repeat: ./age for each repeat instance. ${rep_min} is /data/rep_min, outside the repeat;
# '._min' is not a path at all.
sys.exit(0 if ok == "/data/rep[ ./age &gt; /data/min_age ]" and bad == "/data/rep[ ./age &gt; /data/rep_min ]" else 1)
