import re, sys
from pyxform.xls2xform import convert
md = """
| survey  | type         | name | label |
|         | select_one l | s    | Pick  |
| choices | list_name | name | label::English | label::French |
|         | l         | a    | A              | Ah            |
|         | l         | b    |                |               |
"""
x = convert(xlsform=md).xform
ids = set(re.findall(r"<itextId>(.*?)</itextId>", x))
for lang, body in re.findall(r'<translation [^>]*lang="(.*?)".*?>(.*?)</translation>', x, re.S):
    missing = ids - set(re.findall(r'<text id="(.*?)"', body))
    if missing:
        sys.exit(f"itextId {sorted(missing)} has no <text> in translation {lang!r}")
