"""itemsets.csv: cells of a sparse external_choices row shift left; header taken from a set when the dict input
has no external_choices_header (column order depends on PYTHONHASHSEED, cells no longer under their header)."""
import csv, io, sys
from pyxform.xls2xform import convert

survey = [{"type": "text", "name": "st", "label": "St"},
          {"type": "select_one_external ec", "name": "q", "label": "Q", "choice_filter": "state=${st}"}]
rows = [{"list_name": "ec", "name": "n0", "label": "L0", "state": "s0", "county": "c0"},
        {"list_name": "ec", "name": "n1", "state": "s1", "county": "c1"}]  # row 2: empty label cell
ok = True
for hdr in ({"external_choices_header": [dict.fromkeys(rows[0])]}, {}):  # with / without the header row
    text = convert(xlsform={"survey": survey, "external_choices": [dict(r) for r in rows], **hdr}).itemsets
    got = list(csv.DictReader(io.StringIO(text, newline="")))
    ok = ok and list(got[0]) == list(rows[0]) and [{k: v for k, v in g.items() if v} for g in got] == rows
sys.exit(0 if ok else 1)
