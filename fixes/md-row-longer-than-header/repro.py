"""A Markdown row with more cells than the header row crashes with IndexError: tuple index out of range
(the same sheet as CSV or XLSX converts: cells beyond the last column header belong to no column)."""
import sys
from pyxform.errors import PyXFormError
from pyxform.xls2xform import convert

rows = [["type", "name", "label"], ["text", "q", "Q", "a stray cell"], ["", "", "", "another"], ["note", "n", "N"]]
MD = "| survey |\n" + "".join("| | " + " | ".join(r) + " |\n" for r in rows)
CSV = "survey,,,,\n" + "".join("," + ",".join(r) + "\n" for r in rows)
want = convert(xlsform=CSV, file_type=".csv", form_name="data")
try:
    got = convert(xlsform=MD, file_type=".md", form_name="data")
except PyXFormError as e:
    sys.exit(print("refused:", e) or 1)
except Exception as e:  # IndexError
    sys.exit(print("crash:", type(e).__name__, e) or 1)
sys.exit(0 if (got.xform, got.warnings) == (want.xform, want.warnings) else 1)
