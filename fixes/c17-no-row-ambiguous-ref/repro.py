"""A ${q} reference (row 8) to a name carried by questions in two different groups is refused with "... There are multiple survey elements with this name." - no spreadsheet row is cited."""
import sys
from pyxform.errors import PyXFormError
from pyxform.xls2xform import convert

MD = '| survey |\n| | type | name | label |\n| | begin group | g1 | G1 |\n| | text | q | Q1 |\n| | end group | | |\n| | begin group | g2 | G2 |\n| | text | q | Q2 |\n| | end group | | |\n| | note | n | See ${q} |\n'
try:
    convert(xlsform=MD, file_type=".md")
    print("accepted"); sys.exit(1)
except PyXFormError as e:
    print(e)
    sys.exit(0 if "[row : 8]" in str(e) else 1)  # the error belongs to spreadsheet row 8
