"""save_to on a `begin loop over <list>` row: accepted, entities:saveto put on the bind of a group."""
import sys
from pyxform.errors import PyXFormError
from pyxform.xls2xform import convert

MD = ("| survey |\n| | type | name | label | save_to |\n| | begin loop over l | g | G | p1 |\n"
      "| | text | q | Q | |\n| | end loop | | | |\n"
      "| choices |\n| | list_name | name | label |\n| | l | a | A |\n"
      "| entities |\n| | dataset | label |\n| | e | E |\n")
try:
    xform = convert(xlsform=MD, file_type=".md", form_name="data").xform
    print([b for b in xform.split("<") if b.startswith("bind") and "saveto" in b])
    sys.exit(1)
except PyXFormError as e:
    assert str(e) == "[row : 2] Groups and repeats can't be saved as entity properties.", e
    sys.exit(0)
