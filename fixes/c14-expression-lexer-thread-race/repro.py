"""Conversions in threads share one re.Scanner, which keeps its current match on itself: token positions of one
conversion are taken from another, and the text around an instance() expression in a label comes out wrong."""
import sys, threading
from pyxform.xls2xform import convert

sys.setswitchinterval(1e-6)
def xform(i, j):  # a different label text per form, so that nothing is served from the parse_expression cache
    label = f"Form {i}: " + " and ".join("instance('l')/root/item[name = ${q}]/label" for _ in range(40))
    md = ("| survey |\n| | type | name | label |\n| | select_one l | q | Q |\n"
          f"| | note | n | {label} |\n| choices |\n| | list_name | name | label |\n| | l | a | A |\n")
    return convert(xlsform=md, file_type=".md", form_name="data").xform.replace(f"Form {i}:", f"Form {j}:")
N, bad = 32, []
for n in range(0, 30 * N, 2 * N):  # 15 rounds: the race is not hit on every one
    want = [xform(n + i, i) for i in range(N)]  # one after the other
    got = [None] * N
    def work(i, base=n + N):
        got[i] = xform(base + i, i)
    threads = [threading.Thread(target=work, args=(i,)) for i in range(N)]
    [t.start() for t in threads]
    [t.join() for t in threads]
    bad = [i for i in range(N) if got[i] != want[i]]
    if bad:
        break
print(f"{len(bad)} of {N} threaded conversions differ from the same form converted alone")
sys.exit(1 if bad else 0)
