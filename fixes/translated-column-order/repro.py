import re, sys
from pyxform.xls2xform import convert
form = """
| survey | type | name | {0[0]} | {1[0]} |
|        | text | q    | {0[1]} | {1[1]} |
"""
cols = [("label", "Name"), ("label::French", "Nom")]
def shown(columns):
    return sorted(re.findall(r"<value>(.*?)</value>", convert(xlsform=form.format(*columns)).xform))
first, last = shown(cols), shown(cols[::-1])
print("label first:", first, "| label last:", last)
if first != last or "Nom" not in last:
    sys.exit("the French label is lost when the unsuffixed column is right of label::French")
