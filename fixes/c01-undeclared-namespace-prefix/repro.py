"""A prefixed name (bind::foo:bar, attribute::foo:bar, question / form name a:b) with an undeclared prefix is output as is."""
import sys, xml.etree.ElementTree as ET
from pyxform.errors import PyXFormError
from pyxform.xls2xform import convert

MD = "| survey |\n| | type | name | label | %s |\n| | text | %s | L | v |\n| settings |\n| | %s | namespaces |\n| | v | %s |\n"
OK, bad = 'foo="http://example.org/foo"', []
for col, q, st, ns in (("bind::foo:bar", "q", "version", ""), ("body::foo:bar", "q", "version", ""), ("instance::foo:bar", "q", "version", ""),
        ("hint", "q", "attribute::foo:bar", ""), ("hint", "foo:q", "version", ""), ("hint", "q", "name", ""),
        ("bind::foo:bar", "foo:q", "attribute::foo:bar", OK), ("bind::odk:x", "q", "attribute::orx:y", "")):
    try:
        ET.fromstring(convert(xlsform=MD.replace("| v |", "| foo:v |" if st == "name" else "| v |") % (col, q, st, ns), file_type=".md").xform.encode())
    except (PyXFormError, ET.ParseError) as e:  # ParseError: accepted, but the XForm has an unbound prefix
        bad += [(col, q, st)] if ns or "odk:" in col or "namespace prefix 'foo', which is not declared" not in str(e) else []
sys.exit(print(bad) or 1 if bad else 0)
