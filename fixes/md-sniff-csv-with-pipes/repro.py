"""CSV data with >= 5 pipe characters in its cells, given without file_type, is taken for Markdown (no table rows
found -> empty workbook) and rejected with "You must have a sheet named 'survey'" instead of being read as CSV."""
import sys
from pyxform.errors import PyXFormError
from pyxform.xls2xform import convert
CSV = 'survey,,,\n,type,name,label,constraint\n,text,a,"a | b | c","regex(., \'^(x|y|z|w)$\')"\n'
ref = convert(xlsform=CSV, file_type=".csv", form_name="data").xform
try:
    got = convert(xlsform=CSV.encode("utf-8"), form_name="data").xform
except PyXFormError as e:
    print(e)
    sys.exit(1)
sys.exit(0 if got == ref else 1)
