"""An empty header cell (padding / trailing column) becomes a column: 'None' in Markdown (shows up in itemsets.csv),
'' in CSV (spurious "Column headers must not be empty" warning). XLS/XLSX ignore such cells."""
import sys
from pyxform.xls2xform import convert
MD = ("| survey |\n| | type | name | label | choice_filter |\n| | text | q1 | Q1 | |\n"
      "| | select_one_external l1 | q2 | Q2 | q1=${q1} |\n"
      "| external_choices | | | | |\n| | list_name | name | q1 | |\n| | l1 | 1 | 1 | |\n")
CSV = "survey,,,,\n,type,name,label,\n,select_one l,q,Q,\nchoices,,,,\n,list_name,name,label,\n,l,x,X,\n"
itemsets = convert(xlsform=MD, file_type=".md").itemsets
warnings = convert(xlsform=CSV, file_type=".csv").warnings
print(repr(itemsets), warnings)
sys.exit(0 if itemsets.splitlines()[0] == '"list_name","name","q1"' and warnings == [] else 1)
