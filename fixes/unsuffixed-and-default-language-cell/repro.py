import re, sys
from pyxform.xls2xform import convert
md = """
| survey   | type          | name | label |
|          | select_one cl | s    | Pick  |
| choices  | list_name | name | label | label::English | label::French |
|          | cl        | a    | Oui   | Yes            | Ouais         |
| settings | default_language |
|          | French           |
"""
fr = re.search(r'<translation [^>]*lang="French".*?</translation>', convert(xlsform=md).xform, re.S).group(0)
print(fr)
if not re.search(r"<value>(Oui|Ouais)</value>", fr):
    sys.exit("French users see neither 'Oui' nor 'Ouais' for choice a")
