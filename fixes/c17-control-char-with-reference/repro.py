"""Vertical tab (U+000B) in a label that also has a ${reference}: ExpatError instead of a result or PyXFormError."""
import sys
from pyxform.errors import PyXFormError
from pyxform.xls2xform import convert

MD = "| survey |\n| | type | name | label |\n| | text | a | A |\n| | note | n | x\x0by ${a} |\n"
try:
    convert(xlsform=MD, file_type=".md")
    sys.exit(0)
except PyXFormError as e:
    print("refused (acceptable):", e); sys.exit(0)
except Exception as e:  # the defect
    print("internal exception:", type(e).__name__, e); sys.exit(1)
