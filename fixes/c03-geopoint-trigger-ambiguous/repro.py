"""background-geopoint with trigger ${a} where questions in two groups are called a: accepted (an odk:setgeopoint
is put in both controls), while the same trigger on a calculation is refused as ambiguous."""
import sys
from pyxform.errors import PyXFormError
from pyxform.xls2xform import convert

MD = ("| survey |\n| | type | name | label | trigger |\n| | begin group | g1 | G1 | |\n| | text | a | A | |\n"
      "| | end group | | | |\n| | begin group | g2 | G2 | |\n| | text | a | A | |\n| | end group | | | |\n"
      "| | background-geopoint | p | | ${a} |\n")
try:
    xform = convert(xlsform=MD, file_type=".md", form_name="data").xform
    print("accepted; setgeopoint actions:", xform.count("<odk:setgeopoint")); sys.exit(1)
except PyXFormError as e:
    print(e); sys.exit(0 if "${a}" in str(e) else 1)
