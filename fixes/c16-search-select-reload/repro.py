"""A select using search() dumps (after to_xml) without `itemset`; loading the dump dies with KeyError('itemset')."""
import json, sys
from pyxform.builder import create_survey_element_from_dict
from pyxform.xls2xform import convert

MD = ("| survey |\n| | type | name | label | appearance |\n| | select_one l | q | Q | search('fruits') |\n"
      "| choices |\n| | list_name | name | label |\n| | l | name_key | name |\n")
survey = convert(xlsform=MD, file_type=".md", form_name="data")._survey
xform = survey.to_xml(validate=False)
try:
    reloaded = create_survey_element_from_dict(json.loads(json.dumps(survey.to_json_dict())))
    sys.exit(0 if reloaded.to_xml(validate=False) == xform else 1)
except (KeyError, TypeError) as e:
    print(repr(e))
    sys.exit(1)
