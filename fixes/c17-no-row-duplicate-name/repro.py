"""Two questions with the same name in one section (rows 2 and 3) are refused with "There are more than one survey elements named 'a' (case-insensitive) in the section named 'data'." - no spreadsheet row is cited although the error belongs to a row."""
import sys
from pyxform.errors import PyXFormError
from pyxform.xls2xform import convert

MD = '| survey |\n| | type | name | label |\n| | text | a | A |\n| | integer | a | B |\n'
try:
    convert(xlsform=MD, file_type=".md")
    print("accepted"); sys.exit(1)
except PyXFormError as e:
    print(e)
    sys.exit(0 if "[row : 3]" in str(e) else 1)  # the error belongs to spreadsheet row 3
