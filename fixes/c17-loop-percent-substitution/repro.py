"""begin loop over <list>: a bare % in a cell, or a cell under a three part header, crashes (TypeError/ValueError)."""
import sys
from pyxform.xls2xform import convert

MD = ("| survey |\n| | type | name | label | relevant | image::en |\n| | integer | x | X | | |\n"
      "| | begin loop over l | g | G | | |\n| | text | q | %s | %s | %s |\n| | end loop | | | | |\n"
      "| choices |\n| | list_name | name | label |\n| | l | a | A |\n")
CASES = [  # (label, relevant, image::en, text expected in the XForm)
    ("50% done", "", "", "<label>50% done</label>"),
    ("100% sure about %(label)s", "", "", "<label>100% sure about A</label>"),
    ("Q %(name)s", "${x} > 0 and '50%' != ''", "", """relevant=" /data/x  &gt; 0 and '50%' != ''\""""),
    ("Q %(nope)s %%", "", "", "<label>Q %(nope)s %%</label>"),
    ("Q", "", "%(name)s.png", "jr://images/a.png"),
]
bad = []
for label, relevant, image, expected in CASES:
    try:
        xform = convert(xlsform=MD % (label, relevant, image), file_type=".md", form_name="data").xform
        if expected not in xform:
            bad.append((label, "mangled"))
    except Exception as e:
        bad.append((label, type(e).__name__, str(e)))
print(bad)
sys.exit(1 if bad else 0)
