"""A non-breaking space inside an xlsx column header is kept (data cells read it as a plain space)."""
import io, sys
from openpyxl import Workbook
from pyxform.xls2xform import convert
def xform(header):
    wb = Workbook()
    ws = wb.active
    ws.title = "survey"
    for row in (["type", "name", header, "hint::English (en)"], ["text", "q", "Q", "H"]):
        ws.append(row)
    buf = io.BytesIO()
    wb.save(buf)
    return convert(xlsform=buf.getvalue(), file_type=".xlsx", form_name="data").xform
sys.exit(0 if xform("label::English (en)") == xform("label::English (en)") else 1)
