"""Order of <value> forms in a padded translation depends on PYTHONHASHSEED (_add_empty_translations uses a set)."""
import os, subprocess, sys
MD = ("| survey |\n| | type | name | label::en | label::fr | hint::en | guidance_hint::en | image::en |\n"
      "| | text | q | Q | Q fr | h | g | i.png |\n")
CODE = "import sys; from pyxform.xls2xform import convert; sys.stdout.write(convert(xlsform=sys.argv[1], file_type='.md').xform)"
outs = set()
for seed in range(8):
    env = dict(os.environ, PYTHONHASHSEED=str(seed))
    outs.add(subprocess.run([sys.executable, "-c", CODE, MD], env=env, capture_output=True, text=True, check=True).stdout)
sys.exit(0 if len(outs) == 1 else 1)
