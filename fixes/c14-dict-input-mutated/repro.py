"""convert(xlsform=d) changes the caller's dict d (keys removed, cleaned values and row numbers written into the
rows), so converting the same dict a second time gives another result: the warning about form_id and id_string
both being specified is only given the first time."""
import copy, sys
from pyxform.xls2xform import convert

d = {
    "survey": [{"type": "select_one l", "name": "q", "label": "Is  it “so”?"}],
    "choices": [{"list_name": "l", "name": "a", "label": "A"}],
    "settings": [{"id_string": "a", "form_id": "b"}],
    "settings_header": [{"id_string": None, "form_id": None}],
}
before = copy.deepcopy(d)
first = convert(xlsform=d, form_name="data")
second = convert(xlsform=d, form_name="data")
print("input unchanged:", d == before, "\nwarnings 1st:", first.warnings, "\nwarnings 2nd:", second.warnings)
same = (first.xform, first.warnings, first.itemsets) == (second.xform, second.warnings, second.itemsets)
sys.exit(0 if same and d == before and len(first.warnings) == 1 else 1)
