"""A cell containing a character XML 1.0 cannot carry (e.g. U+0001, U+000B) is written raw: XForm not well-formed."""
import sys, xml.etree.ElementTree as ET
from pyxform.errors import PyXFormError
from pyxform.xls2xform import convert

MD = "| survey |\n| | type | name | label | hint |\n| | text | q | L | a\x01b |\n"
try:
    xform = convert(xlsform=MD, file_type=".md").xform
    ET.fromstring(xform.encode())
except PyXFormError:
    sys.exit(0)  # refusing the cell is one acceptable outcome
except ET.ParseError as e:
    print(e)
    sys.exit(1)  # accepted without a message, output is not XML
sys.exit(0)
