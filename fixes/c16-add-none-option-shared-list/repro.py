"""add_none_option: the none choice is missing from the list, and selects that share a list differ between routes."""
import json, re, sys
from pyxform.builder import create_survey_element_from_dict, create_survey_element_from_json
from pyxform.xls2xform import convert

MD = ("| survey |\n| | type | name | label | constraint |\n| | select_multiple l | q1 | Q1 | |\n"
      "| | select_multiple l | q2 | Q2 | count-selected(.) < 3 |\n"
      "| choices |\n| | list_name | name | label |\n| | l | a | A |\n| | l | b | B |\n"
      "| settings |\n| | add_none_option |\n| | yes |\n")
NONE = "(.='none' or not(selected(., 'none')))"
result = convert(xlsform=MD, file_type=".md")
direct = result.xform
from_workbook_json = create_survey_element_from_dict(json.loads(json.dumps(result._pyxform)))
from_survey_json = create_survey_element_from_json(result._survey.to_json())
binds = dict(re.findall(r'<bind nodeset="/data/(q\d)" type="string"(?: constraint="([^"]*)")?/>', direct))
bad = []
if direct.count("<item><name>none</name><label>None</label></item>") != 1:
    bad.append("the list does not have exactly one none item")
if binds != {"q1": NONE, "q2": "count-selected(.) &lt; 3 and " + NONE}:
    bad.append(f"constraints: {binds}")
for route, survey in (("workbook JSON", from_workbook_json), ("survey JSON", from_survey_json)):
    if survey.to_xml(validate=False, pretty_print=False) != direct:
        bad.append(f"XForm rebuilt from the {route} differs")
sys.exit(print("\n".join(bad)) or 1 if bad else 0)
