"""Two columns with the same header are refused from XLSX ("Duplicate column header: label") but convert silently
from Markdown and CSV (the cell of the first column is lost); from XLSX too when one of the headers is padded."""
import io, sys
from openpyxl import Workbook
from pyxform.errors import PyXFormError
from pyxform.xls2xform import convert

def outcome(fmt, header):
    rows = [["type", "name", "label", header], ["text", "q", "Q1", "Q2"]]
    data = {"md": "| survey |\n" + "".join("| | " + " | ".join(r) + " |\n" for r in rows),
            "csv": "survey,,,,\n" + "".join("," + ",".join(r) + "\n" for r in rows)}.get(fmt)
    if data is None:
        wb = Workbook()
        wb.active.title = "survey"
        [wb.active.append(r) for r in rows]
        wb.save(data := io.BytesIO())
    try:
        return "converts: " + ("Q2" if "Q2" in convert(xlsform=data, file_type="." + fmt, form_name="data").xform else "?")
    except PyXFormError as e:
        return str(e)
got = {(f, h): outcome(f, h) for f in ("xlsx", "md", "csv") for h in ("label", "label ", "hint")}
print(*got.items(), sep="\n")
sys.exit(0 if all((o == "Duplicate column header: label") == (h != "hint") for (f, h), o in got.items()) else 1)
