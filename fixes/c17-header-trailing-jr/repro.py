"""A single-colon header ending in ':jr' (survey column `hint:jr`) crashes with IndexError: tuple index out of range."""
import sys
from pyxform.errors import PyXFormError
from pyxform.xls2xform import convert

MD = "| survey |\n| | type | name | label | hint:jr |\n| | text | q | Q | H |\n"
try:
    xform = convert(xlsform=MD, file_type=".md", form_name="data").xform
    sys.exit(0 if "H" in xform else 1)  # read as the hint in a language called jr
except PyXFormError as e:
    print(e); sys.exit(0)
except IndexError as e:
    print("IndexError:", e); sys.exit(1)
