"""bind::xmlns:xml / bind::xmlns:xmlns columns, or a name xmlns:q, are output as is: the XForm is not namespace-valid."""
import sys, xml.etree.ElementTree as ET
from pyxform.errors import PyXFormError
from pyxform.xls2xform import convert

MD = "| survey |\n| | type | name | label | %s |\n| | text | %s | Q | %s |\n| settings |\n| | %s |\n| | %s |\n"
XML, XMLNS, bad = "http://www.w3.org/XML/1998/namespace", "http://www.w3.org/2000/xmlns/", []
for column, name, value, setting, accepted in (
        ("bind::xmlns:xml", "q", "http://x", "version", False), ("bind::xmlns:xmlns", "q", "http://x", "version", False),
        ("body::xmlns:xml", "q", "http://x", "version", False), ("instance::xmlns:xmlns", "q", "http://x", "version", False),
        ("bind::xmlns:p", "q", XML, "version", False), ("bind::xmlns", "q", XMLNS, "version", False),
        ("hint", "q", "http://x", "attribute::xmlns:xml", False), ("hint", "xmlns:q", "h", "version", False),
        ("body::tag", "q", "xmlns:q", "version", False),
        ("bind::xmlns:xml", "q", XML, "version", True), ("bind::xmlns:p", "q", "http://x", "attribute::xmlns:p", True),
        ("bind::xmlns", "q", "http://x", "version", True), ("bind::xml:lang", "xml:q", "en", "attribute::xml:lang", True)):
    try:
        ET.fromstring(convert(xlsform=MD % (column, name, value, setting, value), file_type=".md").xform.encode())
        ok = accepted
    except PyXFormError as e:
        ok = not accepted and ("not a valid namespace declaration" in str(e) or "'xmlns', which is reserved" in str(e))
    except ET.ParseError as e:  # converted, but the result is refused by a namespace-aware parser
        ok = bool(print(column, name, setting, e))
    bad += [] if ok else [(column, name, value, setting)]
sys.exit(print("wrong:", bad) or 1 if bad else 0)
