"""The settings header omit_instanceID is only recognised in exactly that spelling, other settings headers in any case."""
import sys
from pyxform.errors import PyXFormError
from pyxform.xls2xform import convert

MD = "| survey |\n| | type | name | label |\n| | text | q1 | Q |\n| settings |\n| | %s | Version |\n| | %s | v1 |\n"
bad = []
for header in ("omit_instanceID", "omit_instanceid", "OMIT_INSTANCEID", "Omit_InstanceID", "omit instanceID"):
    for value, expected in (("yes", False), ("no", True)):
        xform = convert(xlsform=MD % (header, value), file_type=".md").xform
        if ("<instanceID/>" in xform) != expected or 'version="v1"' not in xform:
            bad.append((header, value))
try:  # the same setting twice
    convert(xlsform=MD.replace("Version", "omit_instanceid") % ("omit_instanceID", "yes"), file_type=".md")
    bad.append("duplicate accepted")
except PyXFormError as e:
    bad += [] if "omit_instanceid" in str(e) else [str(e)]
sys.exit(print("wrong:", bad) or 1 if bad else 0)
