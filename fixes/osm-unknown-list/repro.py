"""osm question naming a list that the osm sheet does not define: TypeError ('NoneType' object is not iterable)."""
import sys
from pyxform.errors import PyXFormError
from pyxform.xls2xform import convert

MD = ("| survey |\n| | type | name | label |\n| | osm buildings | o | O |\n"
      "| osm |\n| | list_name | name | label |\n| | building_tags | building | Building |\n")
try:
    convert(xlsform=MD, file_type=".md")
    sys.exit(0)
except PyXFormError as e:
    print("refused:", e); sys.exit(0 if "[row : 2]" in str(e) else 1)
except Exception as e:  # the defect
    print("internal exception:", type(e).__name__, e); sys.exit(1)
