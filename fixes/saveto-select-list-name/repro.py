"""save_to on a select question whose list name contains 'group' or 'repeat' is refused as if it were a group."""
import sys
from pyxform.errors import PyXFormError
from pyxform.xls2xform import convert

MD = ("| survey |\n| | type | name | label | save_to |\n| | %s | s | S | band |\n"
      "| choices |\n| | list_name | name | label |\n| | %s | x | X |\n| entities |\n| | dataset | label |\n| | trees | ${s} |\n")
for ln in ("ages", "age_groups", "repeat_visits"):
    try:
        r = convert(xlsform=MD % ("select_one " + ln, ln), file_type=".md")
        assert 'entities:saveto="band"' in r.xform
    except PyXFormError as e:
        print(ln, "->", e); sys.exit(1)
sys.exit(0)
