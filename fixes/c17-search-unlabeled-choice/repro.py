"""select with appearance search('f') whose (untranslated) list has a choice without a label: TypeError in build_xml."""
import sys
from pyxform.errors import PyXFormError
from pyxform.xls2xform import convert

MD = ("| survey |\n| | type | name | label | appearance |\n| | select_one cl | q | Q | search('f') |\n"
      "| choices |\n| | list_name | name | label |\n| | cl | a | A |\n| | cl | b | |\n")
try:
    xform = convert(xlsform=MD, file_type=".md", form_name="data").xform
    # accepted (warning for row 3): both inline items present, the labelled one keeps its label.
    sys.exit(0 if "<label>A</label><value>a</value>" in xform and "<value>b</value>" in xform else 1)
except PyXFormError as e:
    print(e); sys.exit(0)
except Exception as e:
    print("internal error:", type(e).__name__, e); sys.exit(1)
