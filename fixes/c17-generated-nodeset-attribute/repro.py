"""bind::nodeset on any row, or body::nodeset on a repeat: TypeError node() got multiple values for keyword 'nodeset'."""
import sys
from pyxform.errors import PyXFormError
from pyxform.xls2xform import convert

MD = "| survey |\n| | type | name | label | %s |\n| | %s | q | Q | /data/x |\n%s"
REPEAT = "| | text | t | T | |\n| | end_repeat | | | |\n"
bad = []
for header, qtype, rest, expected in (("bind::nodeset", "text", "", "error"), ("bind::nodeset", "begin_repeat", REPEAT, "error"),
                                      ("body::nodeset", "begin_repeat", REPEAT, "error"), ("bind:nodeset", "integer", "", "error"),
                                      ("bind::foo", "text", "", 'foo="/data/x"'), ("body::foo", "begin_repeat", REPEAT, 'foo="/data/x"')):
    try:
        ok = expected in convert(xlsform=MD % (header, qtype, rest), file_type=".md").xform
    except PyXFormError as e:
        ok = expected == "error" and "[row : 2]" in str(e) and header.replace(":", "::").replace("::::", "::") in str(e)
    except Exception as e:  # TypeError: pyxform.utils.node() got multiple values for keyword argument 'nodeset'
        ok = bool(print(header, qtype, type(e).__name__, e))
    bad += [] if ok else [(header, qtype)]
sys.exit(print("wrong:", bad) or 1 if bad else 0)
