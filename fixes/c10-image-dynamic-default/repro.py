"""image question with a dynamic default: jr://images/ is prepended to the expression."""
import sys
from pyxform.xls2xform import convert

MD = ("| survey |\n| | type | name | label | default | parameters |\n| | text | p | P | | |\n"
      "| | image | i | I | ${p} | max-pixels=640 |\n| | image | j | J | pic.jpg | max-pixels=640 |\n")
xform = convert(xlsform=MD, file_type=".md", form_name="data").xform
assert "<j>jr://images/pic.jpg</j>" in xform  # static default: file name gets the prefix
ok = '<setvalue ref="/data/i" value=" /data/p " event="odk-instance-first-load"/>' in xform
sys.exit(0 if ok and "jr://images/ /data/p" not in xform else 1)
