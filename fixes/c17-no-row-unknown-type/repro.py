"""A misspelt question type (row 3: 'textt', likewise 'select_won l') is refused with "Unknown question type 'textt'." - no spreadsheet row is cited."""
import sys
from pyxform.errors import PyXFormError
from pyxform.xls2xform import convert

MD = '| survey |\n| | type | name | label |\n| | text | a | A |\n| | textt | b | B |\n'
try:
    convert(xlsform=MD, file_type=".md")
    print("accepted"); sys.exit(1)
except PyXFormError as e:
    print(e)
    sys.exit(0 if "[row : 3]" in str(e) else 1)  # the error belongs to spreadsheet row 3
