"""A row of the osm sheet with no name (empty cell, or no name column): TypeError ... missing ... 'name'."""
import sys
from pyxform.errors import PyXFormError
from pyxform.xls2xform import convert

MD = "| survey |\n| | type | name | label |\n| | osm o | q | Q |\n| osm |\n| | %s |\n| | %s |\n"
bad = []
for header, row, expected in (("list_name | name | label", "o | | A", "error"), ("list_name | label", "o | A", "error"),
                              ("list_name | ::name | label", "o | a | A", "error"),
                              ("list_name | name | label", "o | a | A", '<tag key="a"><label>A</label></tag>')):
    try:
        ok = expected in convert(xlsform=MD % (header, row), file_type=".md").xform
    except PyXFormError as e:
        ok = expected == "error" and "[row : 2]" in str(e) and "tag with no name: o" in str(e)
    except Exception as e:  # TypeError: SurveyElement.__init__() missing 1 required positional argument: 'name'
        ok = bool(print(header, type(e).__name__, e))
    bad += [] if ok else [header]
sys.exit(print("wrong:", bad) or 1 if bad else 0)
