"""namespaces setting: a declaration whose URI contains '=' is dropped by Survey.get_nsmap -> unbound prefix."""
import sys
import xml.etree.ElementTree as ET
from pyxform.xls2xform import convert

MD = ("| survey |\n| | type | name | label | bind::ns:x |\n| | text | q | L | v |\n"
      "| settings |\n| | namespaces |\n| | ns=\"http://e.org/a?b=c\" |\n")
xform = convert(xlsform=MD, file_type=".md").xform
try:
    ET.fromstring(xform.encode())
except ET.ParseError as e:
    print(e)
    sys.exit(1)
sys.exit(0 if 'xmlns:ns="http://e.org/a?b=c"' in xform and 'ns:x="v"' in xform else 1)
