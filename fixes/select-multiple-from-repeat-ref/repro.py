"""select_multiple ${q} (choices from the answers of a repeat, as documented for select_one): KeyError '${q}'."""
import sys
from pyxform.errors import PyXFormError
from pyxform.xls2xform import convert

MD = ("| survey |\n| | type | name | label |\n| | begin repeat | r | R |\n| | text | q | Q |\n| | end repeat | | |\n"
      "| | select_multiple ${q} | s | S |\n")
try:
    x = convert(xlsform=MD, file_type=".md").xform
    sys.exit(0 if '<itemset nodeset="/data/r[./q != \'\']">' in x else 1)
except PyXFormError as e:
    print("refused (acceptable):", e); sys.exit(0)
except Exception as e:  # the defect
    print("internal exception:", type(e).__name__, e); sys.exit(1)
