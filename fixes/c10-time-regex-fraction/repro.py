"""A dateTime default with fractional seconds (2022-03-14T10:00:00.000+07:00) is taken for an expression: the node is
left empty and a <setvalue> is emitted, although the same value without the fraction is a plain static default."""
import sys
from pyxform.xls2xform import convert

def xform(default):
    md = f"| survey |\n| | type | name | label | default |\n| | dateTime | q | Q | {default} |\n"
    return convert(xlsform=md, file_type=".md", form_name="data").xform
plain = xform("2022-03-14T10:00:00+07:00")
assert "<q>2022-03-14T10:00:00+07:00</q>" in plain and "setvalue" not in plain
frac = xform("2022-03-14T10:00:00.000+07:00")
sys.exit(0 if "<q>2022-03-14T10:00:00.000+07:00</q>" in frac and "setvalue" not in frac else 1)
