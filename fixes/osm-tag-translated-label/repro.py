"""A translated label on the osm sheet: the <tag> label refers to an itext id that no translation has."""
import re, sys
from pyxform.xls2xform import convert

MD = """
| survey |
| | type  | name | label%s |
| | osm o | q1   | Q       |
| osm |
| | list_name | name     | label::English | label::French |
| | o         | building | Building       | Batiment      |
| | o         | road     | Road           |               |
"""
bad = []
for q_label in ("", "::English"):
    xform = convert(xlsform=MD % q_label, file_type=".md").xform
    refs = set(re.findall(r"jr:itext\('([^']+)'\)", xform))
    for lang, body in re.findall(r'<translation[^>]*lang="([^"]+)"[^>]*>(.*?)</translation>', xform, re.S):
        texts = dict(re.findall(r'<text id="([^"]+)"><value>([^<]*)</value>', body))
        bad += [(q_label, lang, r) for r in sorted(refs) if r not in texts]
        if lang == "French" and texts.get("/data/q1/building:label") != "Batiment":
            bad.append((q_label, "French text", texts.get("/data/q1/building:label")))
    if "/data/q1/road:label" not in refs or "<translation" not in xform:
        bad.append((q_label, "tag label reference or itext block missing"))
sys.exit(print("wrong:", bad) or 1 if bad else 0)
