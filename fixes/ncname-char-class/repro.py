"""NCName class typo `\\xc0-\\xd6]`: U+00C0..U+00D6 missing, literal 'À-Ö]' accepted as a name-start character."""
import sys
from pyxform.errors import PyXFormError
from pyxform.xls2xform import convert

MD = "| survey |\n| | type | name | label | save_to |\n| | text | a | A | %s |\n| entities |\n| | dataset | label |\n| | %s | a |\n"
def accepted(prop, dataset):
    try:
        convert(xlsform=MD % (prop, dataset), file_type=".md")
        return True
    except PyXFormError:
        return False
ok = accepted("p", "État") and accepted("État", "trees")       # valid XML names: must be accepted
ok = ok and not accepted("xÀ-Ö]y", "trees") and not accepted("p", "xÀ-Ö]y")  # ']' is not a name character
sys.exit(0 if ok else 1)
