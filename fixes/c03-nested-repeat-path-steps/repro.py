import re, sys
from pyxform.xls2xform import convert
def calc(rows):
    md = "| survey |\n| | type | name | label | calculation |\n" + "".join(
        "| | %s | %s | L | %s |\n" % r for r in rows)
    return re.search(r'calculate="([^"]*)"', convert(xlsform=md, file_type=".md").xform).group(1).strip()
def nested(group):  # repeat a { group <group> { t }, repeat b { repeat c { r = ${t} } } }
    return calc([("begin repeat", "a", ""), ("begin group", group, ""), ("text", "t", ""), ("end group", "", ""),
                 ("begin repeat", "b", ""), ("begin repeat", "c", ""), ("text", "r", "${t}"),
                 ("end repeat", "", ""), ("end repeat", "", ""), ("end repeat", "", "")])
ok, bad = nested("g"), nested("xyzwb")  # only the group's name differs
print("group 'g':", ok, "| group 'xyzwb':", bad)
# from /data/a/b/c/r the node /data/a/xyzwb/t is ../../../xyzwb/t ; '../../t' is /data/a/b/t (no such node)
# repeat p { group g { r = ${g} } }: from /data/p/g/r the group is ../../g ; '../g' is /data/p/g/g (no such node)
grp = calc([("begin repeat", "p", ""), ("begin group", "g", ""), ("text", "r", "${g}"),
            ("end group", "", ""), ("end repeat", "", "")])
print("enclosing group:", grp)
sys.exit(0 if (ok, bad, grp) == ("../../../g/t", "../../../xyzwb/t", "../../g") else 1)
