"""A CSV XLSForm with an extra sheet (e.g. 'notes') crashes with TypeError; xls/xlsx/md ignore such sheets."""
import sys
from pyxform.xls2xform import convert
SURVEY = "survey,,,\n,type,name,label\n,text,a,A\n"
try:
    ref = convert(xlsform=SURVEY, file_type=".csv").xform
    got = convert(xlsform=SURVEY + "notes,,,\n,x,y\n,free text,more\n", file_type=".csv").xform
    single = convert(xlsform=SURVEY.replace("survey", "Sheet1"), file_type=".csv").xform  # lone sheet = survey
except TypeError as e:  # DefinitionData.__init__() got an unexpected keyword argument 'notes'
    print(e)
    sys.exit(1)
sys.exit(0 if got == ref == single else 1)
