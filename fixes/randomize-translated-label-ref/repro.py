"""select with randomize=true on a translated choice list: items carry <itextId> but the itemset label ref is 'label'."""
import sys
from pyxform.xls2xform import convert
MD = """
| survey |
| | type          | name | label::en | parameters     |
| | select_one l1 | a    | A         | randomize=true |
| choices |
| | list_name | name | label::en | label::fr |
| | l1        | x    | X         | X fr      |
| | l1        | y    | Y         | Y fr      |
"""
xform = convert(xlsform=MD, file_type=".md").xform
assert "<itextId>l1-0</itextId>" in xform and "<item><label>" not in xform
sys.exit(0 if '<label ref="jr:itext(itextId)"/>' in xform and '<label ref="label"/>' not in xform else 1)
