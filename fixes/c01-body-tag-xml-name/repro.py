"""A body::tag value that is not an XML name (`a b`) becomes the control's element name: XForm not well-formed."""
import sys
import xml.etree.ElementTree as ET
from pyxform.errors import PyXFormError
from pyxform.xls2xform import convert

MD = "| survey |\n| | type | name | label | body::tag |\n| | text | p | P | |\n| | %s | q | L | %s |\n| choices |\n| | list_name | name | label |\n| | l | a | A |\n"
bad = []
for typ, tag, valid in (("text", "a b", 0), ("select_one l", "<x", 0), ("image", "${p}", 0), ("text", "foo:bar", 0),
                        ("text", "upload", 1), ("text", "odk:rank", 1)):
    try:
        xform = convert(xlsform=MD % (typ, tag), file_type=".md").xform
        ET.fromstring(xform.encode())  # ParseError: accepted, but the XForm is not well-formed / has an unbound prefix
        bad += [] if valid and f'<{tag} ref="/data/q">' in xform else [(typ, tag, "accepted")]
    except (PyXFormError, ET.ParseError) as e:
        msg = "prefix 'foo', which is not declared" if ":" in tag else "[row : 3] On the 'survey' sheet, the 'body::tag' value is invalid"
        bad += [(typ, tag, str(e)[:60])] if valid or msg not in str(e) else []
sys.exit(print(bad) or 1 if bad else 0)
