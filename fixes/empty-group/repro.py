"""A group or repeat with no rows between begin and end: TypeError ('NoneType' object is not iterable)."""
import sys
from pyxform.errors import PyXFormError
from pyxform.xls2xform import convert

MD = "| survey |\n| | type | name | label |\n| | text | q | Q |\n| | begin %s | g | G |\n| | end %s | | |\n"
for kind in ("group", "repeat"):
    try:
        r = convert(xlsform=MD % (kind, kind), file_type=".md")
        assert "<g/>" in r.xform and 'ref="/data/g"' in r.xform
    except PyXFormError as e:
        print("refused with the library's error type (acceptable):", e)
    except Exception as e:  # the defect: internal exception
        print("empty", kind, "->", type(e).__name__, e); sys.exit(1)
sys.exit(0)
