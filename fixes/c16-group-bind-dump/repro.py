"""GroupedSection.to_json_dict drops `bind`: a group's relevant/readonly is lost after survey -> JSON -> survey."""
import json, sys
from pyxform.builder import create_survey_element_from_dict
from pyxform.xls2xform import convert

MD = ("| survey |\n| | type | name | label | relevant |\n| | integer | q1 | Q1 | |\n"
      "| | begin group | g1 | G1 | ${q1} = 1 |\n| | text | q2 | Q2 | |\n| | end group | | | |\n")
survey = convert(xlsform=MD, file_type=".md", form_name="data")._survey
reloaded = create_survey_element_from_dict(json.loads(json.dumps(survey.to_json_dict())))
bind = 'nodeset="/data/g1" relevant=" /data/q1  = 1"'
assert bind in survey.to_xml(validate=False)
sys.exit(0 if bind in reloaded.to_xml(validate=False) else 1)
