"""A ${nope} reference to a question that does not exist (relevant cell of row 3) is refused with "There has been a problem trying to replace ${nope} ... There is no survey element with this name." - no spreadsheet row (nor column) is cited."""
import sys
from pyxform.errors import PyXFormError
from pyxform.xls2xform import convert

MD = '| survey |\n| | type | name | label | relevant |\n| | text | a | A | |\n| | integer | b | B | ${nope} = 1 |\n'
try:
    convert(xlsform=MD, file_type=".md")
    print("accepted"); sys.exit(1)
except PyXFormError as e:
    print(e)
    sys.exit(0 if "[row : 3]" in str(e) else 1)  # the error belongs to spreadsheet row 3
