import re, sys
from pyxform.xls2xform import convert
md = """
| survey |
| | type         | name | label | calculation | trigger |
| | begin repeat | rep  | R     |             |         |
| | text         | t    | T     |             |         |
| | begin group  | g    | G     |             |         |
| | text         | c    | C     | ${t}        | ${t}    |
| | end group    |      |       |             |         |
| | end repeat   |      |       |             |         |"""
sv = re.search(r"<setvalue[^>]*>", convert(xlsform=md, file_type=".md").xform).group(0)
print(sv)  # value is evaluated from the node selected by ref (/data/rep/g/c): ${t} must be ../../t
sys.exit(0 if 'ref="/data/rep/g/c"' in sv and 'value=" ../../t "' in sv else 1)
