"""A column named like an internal field or constructor argument (survey: action; settings: children): internal exception."""
import sys
from pyxform.errors import PyXFormError
from pyxform.xls2xform import convert

S = "| survey |\n| | type | name | label | %s |\n| | %s | q | Q | v |\n| choices |\n| | list_name | name | label |\n| | l | a | A |\n"
T = "| survey |\n| | type | name | label |\n| | text | q | Q |\n| settings |\n| | form_id | %s |\n| | f | v |\n"
forms = [(f"survey {h} ({t})", S % (h, t)) for h, t in (("action", "text"), ("children", "osm"), ("tags", "osm"),
                                                         ("fields", "select_one l"), ("question_type_dictionary", "text"))]
forms += [(f"settings {h}", T % h) for h in ("children", "bind", "control", "instance", "_translations")]
crashed = 0
for what, md in forms:
    try:
        convert(xlsform=md, file_type=".md")
    except PyXFormError as e:
        print(what, "refused (acceptable):", e)
    except Exception as e:  # the defect
        crashed += 1
        print(what, "internal exception:", type(e).__name__, e)
sys.exit(1 if crashed else 0)
