"""pulldata ('f', ...) with white space before the parenthesis: no <instance id="f"> is declared."""
import sys
from pyxform.xls2xform import convert

MD = "| survey |\n| | type | name | label | calculation | default |\n| | calculate | c | | %s | |\n| | text | d | D | | %s |\n"
bad = []
for call in ("pulldata('f', 'a', 'b', 'k')", "pulldata ('f', 'a', 'b', 'k')", "if(true(), pulldata\t( 'f','a','b','k'), '')"):
    for cells in ((call, ""), ("1", call)):
        xform = convert(xlsform=MD % cells, file_type=".md", form_name="data").xform
        if xform.count('<instance id="f" src="jr://file-csv/f.csv"/>') != 1:
            bad.append(cells)
print(bad)
sys.exit(1 if bad else 0)
