"""XLSX header cell holding a number: AttributeError instead of the result the same sheet gives as Markdown."""
import io
import sys
from openpyxl import Workbook
from pyxform.xls2xform import convert

wb = Workbook()
ws = wb.active
ws.title = "survey"
ws.append(["type", "name", "label", 2024])  # the last header cell is a number, not text
ws.append(["text", "q", "Q", "x"])
data = io.BytesIO()
wb.save(data)
md = "| survey |\n| | type | name | label | 2024 |\n| | text | q | Q | x |\n"
expected = convert(xlsform=md, file_type=".md", form_name="data")
try:
    result = convert(xlsform=data.getvalue(), file_type=".xlsx", form_name="data")
except AttributeError as e:
    print("AttributeError:", e)
    sys.exit(1)
ok = result.xform == expected.xform and result.warnings == expected.warnings
sys.exit(0 if ok else 1)
