"""`select_one cl or_other` on a translated list (label::en) with one unlabelled choice: KeyError: 'label'."""
import sys
from pyxform.errors import PyXFormError
from pyxform.xls2xform import convert

MD = ("| survey |\n| | type | name | label |\n| | select_one cl or_other | q | Q |\n"
      "| choices |\n| | list_name | name | label::en |\n| | cl | a | A |\n| | cl | b | |\n")
try:
    result = convert(xlsform=MD, file_type=".md", form_name="data")
    # accepted, like the same form without or_other: 'other' choice added, warning for row 3.
    sys.exit(0 if "<name>other</name>" in result.xform and any("[row : 3]" in w for w in result.warnings) else 1)
except PyXFormError as e:
    print(e); sys.exit(0)
except Exception as e:
    print("internal error:", type(e).__name__, e); sys.exit(1)
