"""Damaged ODK_Validate.jar: the jar's file path in java's error is rewritten to ${ODK_Validate.jar}."""
import sys
from pyxform.validators.error_cleaner import ErrorCleaner

bad = 0
for raw in [
    "Error: Invalid or corrupt jarfile /home/me/lib/pyxform/validators/odk_validate/bin/ODK_Validate.jar",
    "Error: Unable to access jarfile /home/me/lib/pyxform/validators/odk_validate/bin/ODK_Validate.jar",
]:
    got = ErrorCleaner.odk_validate(raw)
    if got != raw:
        bad += 1
        print("got %r, expected %r" % (got, raw))
# Instance paths in validator diagnostics are still shown as ${name}.
if ErrorCleaner.odk_validate("Problem found at nodeset: /data/g/q") != "Problem found at nodeset: ${q}":
    bad += 1
sys.exit(1 if bad else 0)
