"""Markdown and CSV readers drop empty rows amongst the data, so '[row : N]' in messages does not match the sheet
(XLS/XLSX keep them as empty rows for exactly that reason)."""
import sys
from pyxform.xls2xform import convert
rows = [["type", "name", "label"], ["text", "a", "A"], ["", "", ""], ["", "", ""], ["image", "b", "B"], ["", "", ""]]
MD = "| survey |\n" + "".join("| | " + " | ".join(r) + " |\n" for r in rows)
CSV = "survey,,,\n" + "".join("," + ",".join(r) + "\n" for r in rows)
DICT = {"survey": [dict((k, v) for k, v in zip(rows[0], r) if v) for r in rows[1:-1]]}
ref = convert(xlsform=DICT, form_name="data")  # what the xlsx reader hands over: the image question is on sheet row 5
assert ref.warnings[0].startswith("[row : 5]"), ref.warnings
md, csv_ = convert(xlsform=MD, file_type=".md", form_name="data"), convert(xlsform=CSV, file_type=".csv", form_name="data")
print(md.warnings, csv_.warnings)
sys.exit(0 if md.warnings == ref.warnings == csv_.warnings and md.xform == ref.xform == csv_.xform else 1)
