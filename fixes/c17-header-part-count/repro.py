"""A header with a '::' part the column does not take (name::en, media::image::en::x) or without one it needs (bind)."""
import sys
from pyxform.errors import PyXFormError
from pyxform.xls2xform import convert

MD = ("| survey |\n| | type | name | label | {s} |\n| | select_one l | q | Q | v |\n"
      "| choices |\n| | list_name | {n} | label | {c} |\n| | l | a | A | v |\n"
      "| settings |\n| | form_id | {t} |\n| | f | v |\n")
OK = {"s": "hint", "n": "name", "c": "image", "t": "version"}
refused = [{"n": "name::en"}, {"c": "list_name::en"}, {"c": "media::image::en::x"}, {"c": "label::en::x"}, {"c": "media"},
           {"s": "type::en"}, {"s": "label::en::x"}, {"s": "image::en::x"}, {"s": "appearance::en"}, {"s": "bind::type::en"},
           {"s": "bind"}, {"s": "instance"}, {"s": "disabled::en"}, {"t": "form_title::en"}, {"t": "namespaces::en"},
           {"t": "attribute"}]
accepted = [{"s": "hint::en", "c": "media::image::en"}, {"s": "constraint_message::en", "c": "label::en"},
            {"s": "bind::foo", "c": "audio", "t": "attribute::foo"}, {"s": "body:esri:style", "c": "x"}]
bad = []
for headers in refused + accepted:
    try:
        ok = convert(xlsform=MD.format(**{**OK, **headers}), file_type=".md") and headers in accepted
    except PyXFormError as e:
        ok = headers in refused and "column header is invalid" in str(e) and all(f"'{h}'" in str(e) for h in headers.values())
    except Exception as e:  # TypeError: unhashable type: 'dict', KeyError: 'text', AttributeError, ...
        ok = bool(print(headers, type(e).__name__, e))
    bad += [] if ok else [headers]
sys.exit(print("wrong:", bad) or 1 if bad else 0)
