import sys
from pyxform.xls2xform import convert
bad = []
for col, val, typ in [("label", "Was ${last-saved#foo}", "text"), ("hint", "${last-saved#foo}", "text"),
                      ("relevant", "${last-saved#foo} = 1", "begin group"), ("repeat_count", "${last-saved#foo}", "begin repeat")]:
    end = "| | end %s | | | |\n" % typ.split()[1] if typ.startswith("begin") else ""
    md = ("| survey |\n| | type | name | label | %s |\n| | integer | foo | Foo | |\n| | %s | q | Q | %s |\n"
          "| | text | inner | I | |\n%s") % (col, typ, val, end)
    x = convert(xlsform=md, file_type=".md").xform
    if "instance('__last-saved')" in x and 'id="__last-saved"' not in x:
        bad.append(col)
print("last-saved referenced but instance not declared for:", bad)
sys.exit(1 if bad else 0)
