"""select_one_external without a choice_filter (only warned about): KeyError instead of a result."""
import sys
from pyxform.errors import PyXFormError
from pyxform.xls2xform import convert

MD = ("| survey |\n| | type | name | label |\n| | select_one_external cities | s | S |\n"
      "| external_choices |\n| | list_name | name | label |\n| | cities | a | A |\n")
try:
    r = convert(xlsform=MD, file_type=".md")
    sys.exit(0 if "query=\"instance('cities')/root/item\"" in r.xform and r.itemsets else 1)
except PyXFormError as e:
    print("refused (acceptable):", e); sys.exit(0)
except Exception as e:  # the defect
    print("internal exception:", type(e).__name__, e); sys.exit(1)
