"""Entities sheet without a list_name/dataset column (or with that cell empty): KeyError instead of PyXFormError."""
import sys
from pyxform.errors import PyXFormError
from pyxform.xls2xform import convert

MD = "| survey |\n| | type | name | label |\n| | text | a | A |\n| entities |\n| | label |\n| | ${a} |\n"
try:
    convert(xlsform=MD, file_type=".md")
    print("accepted an entity without a list name"); sys.exit(1)
except PyXFormError as e:
    print("ok:", e); sys.exit(0)
except Exception as e:  # the defect: internal exception
    print("internal exception:", type(e).__name__, e); sys.exit(1)
