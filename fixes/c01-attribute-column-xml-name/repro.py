"""bind::/body::/instance::/attribute:: header text is written as an XML attribute name unchecked: output not well-formed."""
import sys
import xml.etree.ElementTree as ET
from pyxform.errors import PyXFormError
from pyxform.xls2xform import convert

Q = "| survey |\n| | type | name | label | %s |\n| | text | q | L | v |\n| settings |\n| | %s |\n| | v |\n"
bad = 0
for sv, st in (("bind::1x", "version"), ("body::a@b", "version"), ("instance::a b", "version"), ("hint", "attribute::1a"),
               ("bind::jr:ok", "attribute::ok"), ("body::accuracyThreshold", "attribute::orx:ok.1")):
    try:
        ET.fromstring(convert(xlsform=Q % (sv, st), file_type=".md").xform.encode())
    except (PyXFormError, ET.ParseError) as e:  # ParseError: accepted, but the XForm is not well-formed
        bad += "ok" in sv or "column header is invalid" not in str(e)  # valid names must stay accepted
sys.exit(1 if bad else 0)
