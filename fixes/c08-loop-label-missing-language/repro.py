"""begin loop over <list>: %(label)s in a cell of a language the choices have no label for shows a Python dict."""
import re
import sys
from pyxform.xls2xform import convert

MD = """
| survey |
| | type | name | label::en | label::fr |
| | begin loop over l | g | G | Gf |
| | integer | q | How many %(label)s? | Combien de %(label)s ? |
| | end loop | | | |
| choices |
| | list_name | name | label::en |
| | l | car | cars |
"""
xform = convert(xlsform=MD, file_type=".md", form_name="data").xform
fr = re.search(r'<translation lang="fr">.*?</translation>', xform).group(0)
en = re.search(r'<translation lang="en">.*?</translation>', xform).group(0)
print(fr)
ok = ("<value>Combien de - ?</value>" in fr and "cars" not in fr and "{" not in fr
      and "<value>How many cars?</value>" in en)
sys.exit(0 if ok else 1)
