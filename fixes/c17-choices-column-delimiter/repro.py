"""An extra choices column whose header has a delimiter (`x:y`, `x::y`) is split into a nested dict: AttributeError."""
import sys
from pyxform.errors import PyXFormError
from pyxform.xls2xform import convert

MD = ("| survey |\n| | type | name | label |\n| | select_one l | q | Q |\n"
      "| choices |\n| | list_name | name | label | %s |\n| | l | a | A | v |\n"
      "| settings |\n| | namespaces |\n| | ex=\"http://example.com/ex\" |\n")
bad = []
# header -> expected: an element of each item, a refusal (undeclared prefix), or a warning and the column left out.
for header, expected in (("x:y", "error"), ("ex:y", "<ex:y>v</ex:y>"), ("x::y", "warning"), ("hint::en", "warning"),
                         ("x:y:z", "warning"), ("jr:x", "<jr:x>v</jr:x>"), ("x", "<x>v</x>")):
    try:
        result = convert(xlsform=MD % header, file_type=".md")
        if expected == "warning":
            ok = any(f"the '{header}' value is invalid" in w for w in result.warnings) and ">v<" not in result.xform
        else:
            ok = expected in result.xform
    except PyXFormError as e:
        ok = expected == "error" and "prefix 'x', which is not declared" in str(e)
    except Exception as e:  # AttributeError: 'dict' object has no attribute 'nodeType'
        ok = bool(print(header, type(e).__name__, e))
    bad += [] if ok else [header]
sys.exit(print("wrong:", bad) or 1 if bad else 0)
