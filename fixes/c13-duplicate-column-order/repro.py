"""Columns `caption | label` (alias left of the canonical name) convert silently and the caption cell is lost;
`label | caption` is refused with "different names for the same column". Same for `Label | label`."""
import sys
from pyxform.errors import PyXFormError
from pyxform.xls2xform import convert

def refused(headers):
    md = f"| survey |\n| | type | name | {headers} |\n| | text | q | A | B |\n"
    try:
        convert(xlsform=md, file_type=".md", form_name="data")
    except PyXFormError as e:
        return "different names for the same column" in str(e)
    return False
ok = all(refused(h) for h in ("label | caption", "caption | label", "Label | label", "label | Label"))
sys.exit(0 if ok else 1)
