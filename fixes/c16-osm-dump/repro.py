"""OsmUploadQuestion.get_slot_names lists select slots (choices, itemset, list_name) it does not have: dump crashes."""
import json, sys
from pyxform.builder import create_survey_element_from_dict
from pyxform.xls2xform import convert

MD = ("| survey |\n| | type | name | label |\n| | osm building_tags | b | B |\n"
      "| osm |\n| | list_name | name | label |\n| | building_tags | name | Name |\n")
survey = convert(xlsform=MD, file_type=".md", form_name="data")._survey
try:
    dump = json.loads(json.dumps(survey.to_json_dict()))
except AttributeError as e:
    print(repr(e))
    sys.exit(1)
same = create_survey_element_from_dict(dump).to_xml(validate=False) == survey.to_xml(validate=False)
sys.exit(0 if same and '<tag key="name">' in survey.to_xml(validate=False) else 1)
