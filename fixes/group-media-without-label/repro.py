"""A group with an image but no label: the image is in the itext block, but nothing in the body refers to it."""
import sys
from pyxform.xls2xform import convert

MD = """
| survey |
| | type        | name | label | %s   | appearance |
| | begin group | g    | %s    | %s   | %s         |
| | text        | q1   | Q     |      |            |
| | end group   |      |       |      |            |
"""
REF = """<group%s ref="/data/g"><label ref="jr:itext('/data/g:label')"/><input"""
bad = []
for column, label, image, appearance in (("image", "", "g.png", ""), ("image", "", "g.png", "field-list"),
        ("image::en", "", "g.png", ""), ("image", "G", "g.png", ""), ("image", "", "", ""), ("image", "G", "", "")):
    xform = convert(xlsform=MD % (column, label, image, appearance), file_type=".md").xform
    if image:
        ok = '<value form="image">jr://images/g.png</value>' in xform
        ok = ok and REF % (' appearance="field-list"' if appearance else "") in xform
    else:
        ok = "itext" not in xform and ('<group ref="/data/g"><label>G</label><input' if label else '<group ref="/data/g"><input') in xform
    bad += [] if ok else [(column, label, image, appearance)]
sys.exit(print("wrong:", bad) or 1 if bad else 0)
