"""settings clean_text_values=no plus a choice without a label (row 2 of choices): convert() dies with KeyError: '__row'
instead of the "[row : 2] ... Choices should have a label" warning that the same form gives without the setting."""
import sys
from pyxform.xls2xform import convert

MD = ("| survey |\n| | type | name | label |\n| | select_one l | q | Q |\n"
      "| choices |\n| | list_name | name | label |\n| | l | a | |\n"
      "| settings |\n| | clean_text_values |\n| | no |\n")
try:
    warnings = convert(xlsform=MD, file_type=".md", form_name="data").warnings
except KeyError as e:
    print("KeyError:", e); sys.exit(1)
print(warnings)
sys.exit(0 if any(w.startswith("[row : 2] On the 'choices' sheet, the 'label'") for w in warnings) else 1)
