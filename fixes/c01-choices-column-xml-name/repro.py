"""An extra choices column whose header is not an XML name (`2nd`) becomes an element name: XForm not well-formed."""
import sys
import xml.etree.ElementTree as ET
from pyxform.xls2xform import convert

MD = ("| survey |\n| | type | name | label |\n| | select_one l | q | L |\n"
      "| choices |\n| | list_name | name | label | 2nd | geo.x |\n| | l | a | A | x | y |\n")
result = convert(xlsform=MD, file_type=".md")
try:
    ET.fromstring(result.xform.encode())
except ET.ParseError as e:
    print(e, "<2nd>" in result.xform)
    sys.exit(1)
warned = any("'2nd' value is invalid" in w for w in result.warnings)
sys.exit(0 if warned and "<geo.x>y</geo.x>" in result.xform else 1)
