"""xml-external / csv-external row placed inside a repeat: AttributeError when the repeat template is generated."""
import sys
from pyxform.errors import PyXFormError
from pyxform.xls2xform import convert

MD = ("| survey |\n| | type | name | label |\n| | begin repeat | r | R |\n| | xml-external | cities | |\n"
      "| | text | q | Q |\n| | end repeat | | |\n")
try:
    x = convert(xlsform=MD, file_type=".md").xform
    sys.exit(0 if '<instance id="cities" src="jr://file/cities.xml"/>' in x else 1)
except PyXFormError as e:
    print("refused (acceptable):", e); sys.exit(0)
except Exception as e:  # the defect
    print("internal exception:", type(e).__name__, e); sys.exit(1)
