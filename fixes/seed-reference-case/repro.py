import sys
from pyxform.errors import PyXFormError
from pyxform.xls2xform import convert
def seed_of(question, ref):
    md = ("| survey |\n| | type | name | label | parameters |\n| | integer | %s | N | |\n"
          "| | select_one l | s | S | randomize=true, seed=${%s} |\n"
          "| choices |\n| | list_name | name | label |\n| | l | x | X |\n") % (question, ref)
    try:
        return convert(xlsform=md, file_type=".md").xform.split("randomize(instance('l')/root/item, ")[1].split(")")[0]
    except PyXFormError as e:
        return "error: " + str(e)
valid, unknown = seed_of("Age", "Age"), seed_of("age", "Age")   # question Age / no question Age (only age)
print("seed=${Age}, question Age ->", valid, "\nseed=${Age}, question age ->", unknown)
sys.exit(0 if valid == "/data/Age" and "${Age}" in unknown else 1)
