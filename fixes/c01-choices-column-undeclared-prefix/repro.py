"""A choices column `x:y` (next to a `::` column) is output as <x:y> in the choices instance with the prefix unbound."""
import sys
import xml.etree.ElementTree as ET
from pyxform.errors import PyXFormError
from pyxform.xls2xform import convert

MD = ("| survey |\n| | type | name | label::en |\n| | select_one l | q | L |\n"
      "| choices |\n| | list_name | name | label::en | x:y | z |\n| | l | a | A | v | w |\n"
      "| settings |\n| | namespaces |\n| | %s |\n")
bad = 0
for ns, declared in (('o="http://example.org/o"', False), ('x="http://example.org/x"', True)):
    try:
        xform = convert(xlsform=MD % ns, file_type=".md").xform
        ET.fromstring(xform.encode())  # ParseError: accepted, but the XForm has an unbound prefix
        bad += not (declared and "<x:y>v</x:y><z>w</z>" in xform)
    except (PyXFormError, ET.ParseError) as e:
        print(type(e).__name__, e)
        bad += declared or "column 'x:y' uses the namespace prefix 'x', which is not declared" not in str(e)
sys.exit(1 if bad else 0)
