"""On a form with an entities sheet every XML generation appends the entities namespace to survey.namespaces,
so the survey's JSON dump changes (and grows) each time the XForm is generated."""
import json, sys
from pyxform.builder import create_survey_element_from_dict
from pyxform.xls2xform import convert

MD = ("| survey |\n| | type | name | label | save_to |\n| | text | q | Q | p |\n"
      "| entities |\n| | dataset | label |\n| | trees | ${q} |\n")
workbook_json = convert(xlsform=MD, file_type=".md", form_name="data")._pyxform
survey = create_survey_element_from_dict(json.loads(json.dumps(workbook_json)))
dumps, xforms = [json.dumps(survey.to_json_dict())], []
for _ in range(2):
    xforms.append(survey.to_xml(validate=False))
    dumps.append(json.dumps(survey.to_json_dict()))
    survey = create_survey_element_from_dict(json.loads(dumps[-1]))  # dump, load, and again
print("namespaces:", [json.loads(d).get("namespaces") for d in dumps])
assert xforms[0] == xforms[1] and 'xmlns:entities="http://www.opendatakit.org/xforms/entities"' in xforms[0]
sys.exit(0 if dumps[0] == dumps[1] == dumps[2] else 1)
