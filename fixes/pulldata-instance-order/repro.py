"""Order of the pulldata <instance> elements of one question depends on PYTHONHASHSEED (constants.EXTERNAL_INSTANCES is a set)."""
import os, subprocess, sys
MD = ("| survey |\n| | type | name | label | calculation | constraint | relevant | required | readonly |\n"
      "| | text | q | Q | pulldata('f1','a','b','c') | pulldata('f2','a','b','c')='x' | pulldata('f3','a','b','c')='x' "
      "| pulldata('f4','a','b','c')='x' | pulldata('f5','a','b','c')='x' |\n")
CODE = "import sys; from pyxform.xls2xform import convert; sys.stdout.write(convert(xlsform=sys.argv[1], file_type='.md').xform)"
outs = set()
for seed in range(8):
    env = dict(os.environ, PYTHONHASHSEED=str(seed))
    outs.add(subprocess.run([sys.executable, "-c", CODE, MD], env=env, capture_output=True, text=True, check=True).stdout)
sys.exit(0 if len(outs) == 1 else 1)
