"""Validator diagnostics: the instance path of a question `value` inside a group `item` is left raw instead of ${value}."""
import sys
from pyxform.validators.error_cleaner import ErrorCleaner

got = ErrorCleaner.odk_validate("type mismatch: cannot compare /data/item/q with /data/item/value")
keep = "Problem found at nodeset: /html/body/select1[@ref=/data/q]/item/value"
kept = ErrorCleaner.odk_validate(keep)
print(got, "|", kept)
ok = got == "type mismatch: cannot compare ${q} with ${value}"
ok = ok and kept == "Problem found at nodeset: /html/body/select1[@ref=${q}]/item/value"  # document path: unchanged
sys.exit(0 if ok else 1)
