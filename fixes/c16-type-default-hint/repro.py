"""`phone number` (its type-table entry has a default hint) with a user-written hint: the hint is missing from
survey.to_json_dict(), so the reloaded survey shows the default hint "Enter numbers only." instead."""
import json, sys
from pyxform.builder import create_survey_element_from_dict
from pyxform.xls2xform import convert

MD = "| survey |\n| | type | name | label | hint |\n| | phone number | q | Q | My hint. |\n"
survey = convert(xlsform=MD, file_type=".md", form_name="data")._survey
before = survey.to_xml(validate=False)
dump = json.loads(json.dumps(survey.to_json_dict()))
after = create_survey_element_from_dict(dump).to_xml(validate=False)
print("hint in dump:", dump["children"][0].get("hint"), "| same XForm:", before == after)
sys.exit(0 if before == after and "My hint." in after else 1)
