import io, sys
from openpyxl import Workbook
from pyxform.xls2xform import convert
wb = Workbook(); wb.remove(wb.active)
for name, rows in {"survey": [["type", "name", "label"], ["text", "a", "A"]], " settings": [["form_id", "form_title"], ["myid", "T"]]}.items():
    ws = wb.create_sheet(title=name)
    for r in rows:
        ws.append(r)
b = io.BytesIO(); wb.save(b)
x = convert(xlsform=b.getvalue(), file_type=".xlsx").xform
sys.exit(0 if 'id="myid"' in x else 1)
