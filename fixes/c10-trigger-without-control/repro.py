"""trigger naming a question without a body control (hidden, start, deviceid...): calculation silently lost."""
import sys
from pyxform.errors import PyXFormError
from pyxform.xls2xform import convert

MD = "| survey |\n| | type | name | label | calculation | trigger |\n| | %s | h | | | |\n| | text | c | C | 1 + 1 | ${h} |\n"
bad = []
for t in ("hidden", "start", "deviceid"):
    try:
        xform = convert(xlsform=MD % t, file_type=".md", form_name="data").xform
        if "1 + 1" not in xform:
            bad.append(t)  # accepted, yet no setvalue and no bind calculate carries the calculation
    except PyXFormError as e:
        assert "${h} is not user-visible so it can't be used as a calculation trigger" in str(e), e
sys.exit(1 if bad else 0)
